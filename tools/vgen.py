#!/usr/bin/env python3-vt
"""
Engine G: configurations generated as source, compiled against the current tree.

  vgen.py c08 --out <partial.json>      every arm of macro_rules! fake found in the working tree,
                                        instantiated from its own matcher, compiled (one [[bin]]
                                        per arm), driven by Hypothesis-generated call scripts
                                        against one common reference model        (C08, C06)
  vgen.py replay <file>                 re-run one saved (arm, script) case

Output format = the partial-result JSON of the Rust engines (merged by /verif/check).
"""
import hashlib
import json
import os
import re
import subprocess
import sys
import time

VERIF = os.environ.get("VERIF_DIR", os.path.dirname(os.path.dirname(os.path.abspath(__file__))))
WORK = os.path.join(VERIF, "work")
REPO_COPY = os.path.join(WORK, "repo")
GEN = os.path.join(WORK, "gen")
SEED = int(os.environ.get("VERIF_SEED", "1") or 1)
TIER = os.environ.get("VERIF_TIER", "quick")


def scale(q, t):
    base = t if TIER == "thorough" else q
    return max(1, int(base * float(os.environ.get("VERIF_SCALE", "1"))))


# --------------------------------------------------------------------------------------------
# recorder (same shape as vcommon::Recorder)

class Recorder:
    def __init__(self, prop, engine, rule):
        self.prop, self.engine, self.rule = prop, engine, rule
        self.evaluations = 0
        self.nontrivial = set()
        self.classes = {}
        self.counters = {}
        self.samples = []
        self.violations = []
        self.known_hits = {}
        self.notes = []
        self.assumptions = []
        self.inconclusive = []
        self.exhaustive_parts = []
        self.frozen = False
        self.start = time.time()
        self.sample_next = 1
        self.known = []
        try:
            for line in open(os.path.join(VERIF, "known_findings.txt")):
                line = line.strip()
                if line.startswith("known:"):
                    parts = line[6:].strip().split(" ", 2)
                    p = parts[0].replace("property=", "")
                    s = parts[1].replace("signature=", "") if len(parts) > 1 else ""
                    if p == prop and s:
                        self.known.append({"signature": s, "what": parts[2] if len(parts) > 2 else ""})
        except OSError:
            pass

    def eval(self, sample_fn):
        if self.frozen:
            return
        self.evaluations += 1
        if self.evaluations == self.sample_next and len(self.samples) < 14:
            self.samples.append(sample_fn())
            self.sample_next *= 2

    def cls(self, c):
        if not self.frozen:
            self.classes[c] = self.classes.get(c, 0) + 1

    def count(self, c, n=1):
        if not self.frozen:
            self.counters[c] = self.counters.get(c, 0) + n

    def nontriv(self, key):
        if not self.frozen:
            self.nontrivial.add(hashlib.sha1(json.dumps(key, sort_keys=True, default=str).encode()).hexdigest())

    def is_known(self, sig):
        return any(k["signature"] == sig for k in self.known)

    def fail(self, sig, msg):
        """returns None when sig is a listed known finding (counted), else the failure text"""
        if self.is_known(sig):
            if not self.frozen:
                self.known_hits[sig] = self.known_hits.get(sig, 0) + 1
            return None
        return f"[{sig}] {msg}"

    def violation(self, sig, msg, case):
        body = {"property": self.prop, "engine": self.engine, "seed": SEED, "signature": sig, "message": msg, "case": case}
        d = os.path.join(WORK, "replays")
        os.makedirs(d, exist_ok=True)
        h = hashlib.sha1(json.dumps(body, sort_keys=True).encode()).hexdigest()[:16]
        path = os.path.join(d, f"{self.prop}-{self.engine}-{h}.json")
        json.dump(body, open(path, "w"), indent=1)
        self.violations.append({"signature": sig, "message": msg, "case": case, "replay": path})

    def finish(self, out):
        os.makedirs(os.path.dirname(out), exist_ok=True)
        json.dump({
            "property": self.prop, "engine": self.engine, "rule": self.rule, "evaluations": self.evaluations,
            "distinct_nontrivial": len(self.nontrivial), "classes": self.classes, "counters": self.counters,
            "samples": self.samples, "violations": self.violations, "known_hits": self.known_hits,
            "known_listed": self.known, "notes": self.notes, "assumptions": self.assumptions,
            "inconclusive": self.inconclusive, "exhaustive_parts": self.exhaustive_parts,
            "wall_s": time.time() - self.start, "seed": SEED, "tier": TIER,
        }, open(out, "w"), indent=1)
        if self.violations:
            return 1
        if self.inconclusive:
            return 2
        return 0


# --------------------------------------------------------------------------------------------
# token-tree scanner for macro_rules! fake

def skip_trivia(s, i):
    n = len(s)
    while i < n:
        if s[i].isspace():
            i += 1
        elif s.startswith("//", i):
            j = s.find("\n", i)
            i = n if j < 0 else j + 1
        elif s.startswith("/*", i):
            depth, i = 1, i + 2
            while i < n and depth:
                if s.startswith("/*", i):
                    depth += 1
                    i += 2
                elif s.startswith("*/", i):
                    depth -= 1
                    i += 2
                else:
                    i += 1
        else:
            break
    return i


def skip_group(s, i):
    """s[i] is an opening delimiter; returns index just past its matching closer. Strings, chars,
    lifetimes and comments are skipped."""
    pairs = {"(": ")", "[": "]", "{": "}"}
    stack = [pairs[s[i]]]
    i += 1
    n = len(s)
    while i < n and stack:
        c = s[i]
        if c == '"':
            i += 1
            while i < n and s[i] != '"':
                i += 2 if s[i] == "\\" else 1
            i += 1
        elif c == "r" and re.match(r'r#*"', s[i:]):
            m = re.match(r'r(#*)"', s[i:])
            close = '"' + m.group(1)
            j = s.find(close, i + len(m.group(0)))
            i = n if j < 0 else j + len(close)
        elif c == "'":
            m = re.match(r"'(\\.|[^\\'])'", s[i:])
            i += len(m.group(0)) if m else 1  # char literal or lifetime tick
        elif s.startswith("//", i) or s.startswith("/*", i):
            i = skip_trivia(s, i)
        elif c in pairs:
            stack.append(pairs[c])
            i += 1
        elif c in ")]}":
            if c != stack[-1]:
                raise ValueError(f"unbalanced delimiter at {i}")
            stack.pop()
            i += 1
        else:
            i += 1
    return i


def parse_arms(src, name="fake"):
    m = re.search(r"macro_rules!\s*" + name + r"\s*\{", src)
    if not m:
        raise ValueError("macro_rules! %s not found" % name)
    body_start = m.end() - 1
    body_end = skip_group(src, body_start)
    body = src[body_start + 1:body_end - 1]
    arms = []
    i = 0
    while True:
        i = skip_trivia(body, i)
        if i >= len(body):
            break
        if body[i] not in "([{":
            raise ValueError(f"expected matcher at offset {i}: {body[i:i+40]!r}")
        j = skip_group(body, i)
        matcher = body[i + 1:j - 1]
        k = skip_trivia(body, j)
        if not body.startswith("=>", k):
            raise ValueError("expected =>")
        k = skip_trivia(body, k + 2)
        e = skip_group(body, k)
        line = src[:body_start + 1 + i].count("\n") + 1
        arms.append({"matcher": matcher, "transcriber": body[k:e], "line": line})
        i = skip_trivia(body, e)
        if i < len(body) and body[i] == ";":
            i += 1
    return arms


# --------------------------------------------------------------------------------------------
# arm -> well-typed use

PARAMS = "a: i64, out: &mut i64"
PARAM_TYS = "i64, &mut i64"


def instantiate(matcher):
    """returns (invocation text, options dict) or (None, reason)"""
    text = matcher
    opts = {"when": False, "assign": False, "returns": False, "times": False, "unit": False}
    if text.lstrip().startswith("@"):
        # an internal helper arm (`@name ...`): reached only through the public arms, which are
        # the ones instantiated
        return None, "internal helper arm"
    text, n = re.subn(r"\$\(\s*\$\w+\s*:\s*ident\s*:\s*\$\w+\s*:\s*ty\s*\)\s*,\s*\*", PARAMS, text)
    if n != 1:
        return None, "no `$($name:ident: $ty:ty),*` parameter list"
    text, n = re.subn(r"\$\(\s*\$\w+\s*:\s*tt\s*\)\s*\*", "dly(); ASSIGN_SEQ.store(tick(), SeqCst); ASSIGN_EVALS.fetch_add(1, SeqCst); *out = a + ASSIGN_K.load(SeqCst); let a = a.wrapping_add(777_000); let _ = a;", text)
    opts["assign"] = n > 0

    def sub_frag(mo):
        nm, frag = mo.group(1), mo.group(2)
        if frag == "ty" and "ret" in nm:
            return "i64"
        if frag == "expr" and "cond" in nm:
            opts["when"] = True
            return "{ dly(); COND_EVALS.fetch_add(1, SeqCst); a >= WHEN_MIN.load(SeqCst) }"
        if frag == "expr" and "ret" in nm:
            opts["returns"] = True
            return "{ dly(); RET_SEQ.store(tick(), SeqCst); RET_EVALS.fetch_add(1, SeqCst); a * 2 + RET_K.load(SeqCst) + (*out ^ *out) }"
        if frag == "expr" and "expected" in nm:
            opts["times"] = True
            return "TIMES.load(SeqCst)"
        return mo.group(0)

    text = re.sub(r"\$(\w+)\s*:\s*(\w+)", sub_frag, text)
    if "$" in text:
        return None, "fragment the generator does not know: " + (re.findall(r"\$\w+(?::\w+)?", text) or [text[text.index("$"):][:24]])[0]
    head = re.search(r"func_type\s*:\s*((?:unsafe\s+)?(?:extern\s+\"[^\"]+\"\s+)?fn)\s*\(", text)
    if not head:
        return None, "no func_type"
    quals = re.sub(r"\s+", " ", head.group(1))[:-2].strip()  # without the trailing 'fn'
    opts["quals"] = quals
    opts["unit"] = bool(re.search(r"\)\s*->\s*\(\s*\)", text)) or not re.search(r"\)\s*->", text)
    if opts["unit"] and opts["returns"]:
        return None, "unit arm with returns"
    # sanity: option keywords present literally
    for kw in ("when", "assign", "returns", "times"):
        present = re.search(r"\b" + kw + r"\s*:", text) is not None
        if present != opts[kw]:
            return None, f"option `{kw}` literal/fragment mismatch"
    return " ".join(text.split()), opts


ARM_TEMPLATE = r'''// generated by /verif/tools/vgen.py -- arm {idx} of macro_rules! fake (macros.rs line {line})
#![allow(unused, clippy::all)]
use injectorpp::interface::injector::*;
use std::io::BufRead;
use std::sync::atomic::{{AtomicI64, AtomicU64, AtomicUsize, Ordering::SeqCst}};

static WHEN_MIN: AtomicI64 = AtomicI64::new(0);
static ASSIGN_K: AtomicI64 = AtomicI64::new(0);
static RET_K: AtomicI64 = AtomicI64::new(0);
static TIMES: AtomicUsize = AtomicUsize::new(0);
static TICK: AtomicU64 = AtomicU64::new(1);
static ASSIGN_SEQ: AtomicU64 = AtomicU64::new(0);
static RET_SEQ: AtomicU64 = AtomicU64::new(0);
static COND_EVALS: AtomicU64 = AtomicU64::new(0);
static RET_EVALS: AtomicU64 = AtomicU64::new(0);
static ASSIGN_EVALS: AtomicU64 = AtomicU64::new(0);
static ORIG_RUNS: AtomicU64 = AtomicU64::new(0);
static BASE_ASSIGN: AtomicU64 = AtomicU64::new(0);
static BASE_RET: AtomicU64 = AtomicU64::new(0);
static DELAY_US: AtomicU64 = AtomicU64::new(0);
fn tick() -> u64 {{ TICK.fetch_add(1, SeqCst) }}
// widens the window inside the fake while several threads call it at once (concurrent blocks only)
fn dly() {{ let us = DELAY_US.load(SeqCst); if us > 0 {{ std::thread::sleep(std::time::Duration::from_micros(us)); }} }}

#[inline(never)]
{quals} fn orig(a: i64, out: &mut i64){ret_decl} {{
    ORIG_RUNS.fetch_add(1, SeqCst);
    *out = std::hint::black_box(-1);
    {orig_ret}
}}

// a second original of the same type: takes a fake from a SECOND expansion of the same arm
#[inline(never)]
{quals} fn orig2(a: i64, out: &mut i64){ret_decl} {{
    *out = std::hint::black_box(-3);
    {orig_ret}
}}

// a sibling original that differs from `orig` only in ABI: the arm's fake must be refused on it
#[inline(never)]
{other_quals} fn orig_other_abi(a: i64, out: &mut i64){ret_decl} {{
    *out = std::hint::black_box(-2);
    {orig_ret}
}}

// CONTROL-BEGIN: the same user expressions in an ordinary function: if they are fine here, the
// arm has no excuse not to compile with them
fn control(a: i64, out: &mut i64) -> i64 {{
{control_body}
}}
// CONTROL-END

// the arm's own matcher is the template of a well-typed use
fn make_fake() -> (FuncPtr, CallCountVerifier) {{
    injectorpp::fake!({invocation})
}}
// the same arm expanded a second time, at another place in the source: a fake of its own
fn make_fake2() -> (FuncPtr, CallCountVerifier) {{
    injectorpp::fake!({invocation})
}}

// VGEN_TEARDOWN set: the whole script runs from a fixture's destructor while the thread unwinds
// from a failed test body (`std::thread::panicking()` is true for every use of the fake)
fn main() {{
    // (the hook cannot be replaced from a thread that is already panicking: install it first)
    std::panic::set_hook(Box::new(|info| {{
        let msg = if let Some(s) = info.payload().downcast_ref::<&str>() {{ s.to_string() }} else if let Some(s) = info.payload().downcast_ref::<String>() {{ s.clone() }} else {{ "?".to_string() }};
        if msg == "the test body fails" {{ return; }}
        // evaluation counters at the moment of the panic (observable even when the ABI cannot unwind
        // and the process aborts right after this hook)
        eprintln!("PANIC {{}} ## assign_evals={{}} ret_evals={{}}", msg.replace('\n', " "), ASSIGN_EVALS.load(SeqCst) - BASE_ASSIGN.load(SeqCst), RET_EVALS.load(SeqCst) - BASE_RET.load(SeqCst));
    }}));
    if std::env::var("VGEN_TEARDOWN").is_ok() {{
        struct Fixture;
        impl Drop for Fixture {{ fn drop(&mut self) {{ real_main(); }} }}
        let _ = std::panic::catch_unwind(|| {{ let _f = Fixture; panic!("the test body fails"); }});
    }} else {{
        real_main();
    }}
}}

fn real_main() {{
    let stdin = std::io::stdin();
    let mut lines = stdin.lock().lines();
    // one block per injector lifetime: "<times>", call lines, "end"; every block evaluates the SAME
    // fake! expression again (make_fake)
    loop {{
        let first = match lines.next() {{ Some(Ok(l)) => l, _ => break }};
        // "<times>" or "<times>+<k2>": with `+`, a fake from a second expansion of the arm is installed
        // on `orig2` through the same injector and receives k2 matching calls after the script's calls
        let mut parts = first.trim().splitn(2, '+');
        let times: usize = match parts.next().unwrap_or("").trim().parse() {{ Ok(t) => t, Err(_) => break }};
        let second: Option<usize> = parts.next().and_then(|x| x.trim().parse().ok());
        TIMES.store(times, SeqCst);
        let r = std::panic::catch_unwind(|| {{
            let mut inj = InjectorPP::new();
            inj.when_called(injectorpp::func!(orig, {quals} fn({param_tys}){ret_decl})).will_execute(make_fake());
            if second.is_some() {{
                inj.when_called(injectorpp::func!(orig2, {quals} fn({param_tys}){ret_decl})).will_execute(make_fake2());
            }}
            inj
        }});
        let inj = match r {{
            Ok(i) => i,
            Err(_) => {{ println!("INSTALL-PANIC"); return; }}
        }};
        println!("INSTALLED");
        loop {{
            let line = match lines.next() {{ Some(Ok(l)) => l, _ => break }};
            if line.starts_with("T ") {{
                // "T <threads> <k> <delay_us> [j]": k matching calls (and first j calls whose arguments
                // fail `when`) split over the threads, released together
                let p: Vec<u64> = line[2..].split_whitespace().filter_map(|x| x.parse().ok()).collect();
                let (nt, k, us) = (p[0].max(1) as usize, p[1] as usize, p[2]);
                let j = p.get(3).copied().unwrap_or(0) as usize;
                let k = k + j;
                WHEN_MIN.store(0, SeqCst);
                ASSIGN_K.store(1, SeqCst);
                RET_K.store(1, SeqCst);
                DELAY_US.store(us, SeqCst);
                let barrier = std::sync::Barrier::new(nt);
                let (mut ok, mut bad) = (0usize, 0usize);
                std::thread::scope(|s| {{
                    let hs: Vec<_> = (0..nt).map(|t| {{
                        let barrier = &barrier;
                        s.spawn(move || {{
                            barrier.wait();
                            let (mut ok, mut bad) = (0usize, 0usize);
                            let mut i = t;
                            while i < k {{
                                let a: i64 = if i < j {{ -1000 - i as i64 }} else {{ 5 + i as i64 }};
                                let mut out: i64 = -99;
                                let r = std::panic::catch_unwind(std::panic::AssertUnwindSafe(|| {{ {call_expr} }}));
                                if r.is_ok() {{ ok += 1 }} else {{ bad += 1 }}
                                i += nt;
                            }}
                            (ok, bad)
                        }})
                    }}).collect();
                    for h in hs {{ let (o, b) = h.join().unwrap_or((0, 0)); ok += o; bad += b; }}
                }});
                DELAY_US.store(0, SeqCst);
                println!("CONC ok={{ok}} panic={{bad}}");
                continue;
            }}
            let v: Vec<i64> = line.split_whitespace().filter_map(|x| x.parse().ok()).collect();
            if v.len() < 4 {{ break; }}
            let (a, when_min, assign_k, ret_k) = (v[0], v[1], v[2], v[3]);
            WHEN_MIN.store(when_min, SeqCst);
            ASSIGN_K.store(assign_k, SeqCst);
            RET_K.store(ret_k, SeqCst);
            ASSIGN_SEQ.store(0, SeqCst);
            RET_SEQ.store(0, SeqCst);
            let (c0, r0, s0, o0) = (COND_EVALS.load(SeqCst), RET_EVALS.load(SeqCst), ASSIGN_EVALS.load(SeqCst), ORIG_RUNS.load(SeqCst));
            BASE_ASSIGN.store(s0, SeqCst);
            BASE_RET.store(r0, SeqCst);
            let mut out: i64 = -99;
            // announce the call first: for ABIs that cannot unwind a panic aborts the process here
            println!("CALL {{a}}");
            let r = std::panic::catch_unwind(std::panic::AssertUnwindSafe(|| {{ {call_expr} }}));
            let val = match r {{ Ok(v) => format!("ok {{}}", v), Err(_) => "panic".to_string() }};
            println!("RESULT {{val}} out {{out}} assign_seq {{}} ret_seq {{}} cond_evals {{}} ret_evals {{}} assign_evals {{}} orig_runs {{}}", ASSIGN_SEQ.load(SeqCst), RET_SEQ.load(SeqCst), COND_EVALS.load(SeqCst) - c0, RET_EVALS.load(SeqCst) - r0, ASSIGN_EVALS.load(SeqCst) - s0, ORIG_RUNS.load(SeqCst) - o0);
        }}
        if let Some(k2) = second {{
            WHEN_MIN.store(0, SeqCst);
            ASSIGN_K.store(1, SeqCst);
            RET_K.store(1, SeqCst);
            let (mut ok, mut bad) = (0usize, 0usize);
            for i in 0..k2 {{
                let a: i64 = 7 + i as i64;
                let mut out: i64 = -99;
                let r = std::panic::catch_unwind(std::panic::AssertUnwindSafe(|| {{ {call2_expr} }}));
                if r.is_ok() {{ ok += 1 }} else {{ bad += 1 }}
            }}
            println!("SECOND ok={{ok}} panic={{bad}}");
        }}
        println!("EXIT");
        let r = std::panic::catch_unwind(std::panic::AssertUnwindSafe(move || drop(inj)));
        println!("{{}}", if r.is_ok() {{ "DROPPED" }} else {{ "DROP-PANIC" }});
        let mut out2: i64 = -99;
        let back = {after_expr};
        println!("AFTER {{back}} out {{out2}}");
    }}
    // type check across ABIs: same parameters and result, different ABI => must be refused
    let r = std::panic::catch_unwind(|| {{
        let mut inj = InjectorPP::new();
        inj.when_called(injectorpp::func!(orig_other_abi, {other_quals} fn({param_tys}){ret_decl})).will_execute(make_fake());
        std::mem::forget(inj);
    }});
    println!("XABI {{}}", if r.is_err() {{ "refused" }} else {{ "accepted" }});
}}
'''


def render_arm(idx, arm, invocation, opts):
    quals = opts["quals"]
    unsafe = "unsafe" in quals
    unit = opts["unit"]
    ret_decl = "" if unit else " -> i64"
    call = "orig(a, &mut out)"
    if unsafe:
        call = "unsafe { " + call + " }"
    call_expr = (call + "; 0i64") if unit else call
    call2_expr = call_expr.replace("orig(", "orig2(")
    after = "orig(1, &mut out2)"
    if unsafe:
        after = "unsafe { " + after + " }"
    after_expr = "{ " + after + "; 0i64 }" if unit else after
    other = {"": 'unsafe extern "C"', "unsafe": 'unsafe extern "C"', 'unsafe extern "C"': 'unsafe extern "system"', 'unsafe extern "system"': 'unsafe extern "C"'}.get(quals, 'unsafe extern "C"')
    cb = []
    if opts["when"]:
        cb.append("    let _c: bool = { dly(); COND_EVALS.fetch_add(1, SeqCst); a >= WHEN_MIN.load(SeqCst) };")
    if opts["times"]:
        cb.append("    let _t: usize = TIMES.load(SeqCst);")
    if opts["assign"]:
        cb.append("    { dly(); ASSIGN_SEQ.store(tick(), SeqCst); ASSIGN_EVALS.fetch_add(1, SeqCst); *out = a + ASSIGN_K.load(SeqCst); let a = a.wrapping_add(777_000); let _ = a; }")
    if opts["returns"]:
        cb.append("    { dly(); RET_SEQ.store(tick(), SeqCst); RET_EVALS.fetch_add(1, SeqCst); a * 2 + RET_K.load(SeqCst) + (*out ^ *out) }")
    else:
        cb.append("    let _ = (a, &out); 0")
    return ARM_TEMPLATE.format(control_body="\n".join(cb), idx=idx, line=arm["line"], quals=quals, other_quals=other, ret_decl=ret_decl, orig_ret="" if unit else "std::hint::black_box(-7)", invocation=invocation, param_tys=PARAM_TYS, call_expr=call_expr, call2_expr=call2_expr, after_expr=after_expr)


# --------------------------------------------------------------------------------------------
# build

def build_crate(name, bins):
    """bins: {bin_name: source}. returns {bin_name: {"ok": bool, "errors": [...]}}"""
    d = os.path.join(GEN, name)
    os.makedirs(os.path.join(d, "src", "bin"), exist_ok=True)
    cargo = ['[package]', f'name = "{name}"', 'version = "0.0.0"', 'edition = "2021"', '', '[workspace]', '', '[dependencies]', 'injectorpp = { path = "../../repo" }', '', '[profile.dev]', 'opt-level = 0', 'debug = 0', 'incremental = false', '']
    for b in bins:
        cargo += ['[[bin]]', f'name = "{b}"', f'path = "src/bin/{b}.rs"', '']
    write_if_changed(os.path.join(d, "Cargo.toml"), "\n".join(cargo))
    lock = os.path.join(d, "Cargo.lock")
    if not os.path.exists(lock):
        import shutil
        shutil.copy(os.path.join(VERIF, "harness", "Cargo.lock"), lock)
    keep = set()
    for b, src in bins.items():
        p = os.path.join(d, "src", "bin", f"{b}.rs")
        write_if_changed(p, src)
        keep.add(f"{b}.rs")
    for f in os.listdir(os.path.join(d, "src", "bin")):
        if f not in keep:
            os.unlink(os.path.join(d, "src", "bin", f))
    env = dict(os.environ, CARGO_NET_OFFLINE="true", CARGO_TARGET_DIR=os.path.join(GEN, "target"))
    r = subprocess.run(["cargo", "build", "--offline", "--keep-going", "--message-format=json", "--bins"], cwd=d, env=env, stdout=subprocess.PIPE, stderr=subprocess.PIPE, text=True)
    res = {b: {"ok": False, "errors": [], "exe": None} for b in bins}
    lib_errors = []
    for line in r.stdout.splitlines():
        try:
            m = json.loads(line)
        except ValueError:
            continue
        if m.get("reason") == "compiler-artifact" and m["target"]["name"] in res and m.get("executable"):
            res[m["target"]["name"]]["ok"] = True
            res[m["target"]["name"]]["exe"] = m["executable"]
        if m.get("reason") == "compiler-message" and m["message"].get("level") == "error":
            tname = m["target"]["name"]
            msg = m["message"]
            in_macro = []
            for sp in msg.get("spans", []):
                e = sp.get("expansion")
                while e:
                    in_macro.append(e.get("macro_decl_name", ""))
                    e = e["span"].get("expansion") if e.get("span") else None
            lines = [sp.get("line_start") for sp in msg.get("spans", []) if sp.get("is_primary")] or [sp.get("line_start") for sp in msg.get("spans", [])]
            entry = {"message": msg.get("message", ""), "macros": in_macro, "rendered": (msg.get("rendered") or "")[:1500], "lines": [l for l in lines if l]}
            if tname in res:
                res[tname]["errors"].append(entry)
            else:
                lib_errors.append(entry)
    return res, lib_errors, r.stderr[-2000:]


def write_if_changed(p, s):
    try:
        if open(p).read() == s:
            return
    except OSError:
        pass
    with open(p, "w") as f:
        f.write(s)


# --------------------------------------------------------------------------------------------
# reference model + runner for arm scripts

def run_arm(exe, times, calls, timeout=20, more_blocks=(), teardown=False, second=None):
    """one lifetime (times, calls), optionally followed by further lifetimes [(times, calls), ...];
    teardown: everything runs from a destructor while the thread unwinds"""
    inp = ""
    for bi, (t, cs) in enumerate([(times, calls)] + list(more_blocks)):
        inp += (f"{t}+{second}\n" if (bi == 0 and second is not None) else f"{t}\n") + "".join(f"{a} {w} {k} {r}\n" for (a, w, k, r) in cs) + "end\n"
    env = dict(os.environ, VGEN_TEARDOWN="1") if teardown else None
    p = subprocess.run([exe], input=inp, stdout=subprocess.PIPE, stderr=subprocess.PIPE, text=True, timeout=timeout, env=env)
    return p.returncode, p.stdout.splitlines(), p.stderr.splitlines()


def run_arm_conc(exe, times, threads, k, delay_us, timeout=60, j=0):
    """one lifetime in which k matching calls (and j calls rejected by `when`) arrive from `threads`
    threads released together"""
    inp = f"{times}\nT {threads} {k} {delay_us} {j}\nend\n"
    p = subprocess.run([exe], input=inp, stdout=subprocess.PIPE, stderr=subprocess.PIPE, text=True, timeout=timeout)
    return p.returncode, p.stdout.splitlines(), p.stderr.splitlines()


def model_conc(opts, times, threads, k, out, err, j=0):
    """C06 under concurrent callers: exactly min(k, N) calls are admitted, the others panic at the
    call, and scope exit panics iff k != N, naming both numbers"""
    if not out or out[0] != "INSTALLED":
        return ("install-failed", f"stdout {out[:3]} stderr {err[:3]}")
    m = re.match(r"CONC ok=(\d+) panic=(\d+)", out[1] if len(out) > 1 else "")
    if not m:
        return ("crash-under-concurrent-callers", f"no CONC line: stdout {out[-3:]} stderr {err[-3:]}")
    ok, bad = int(m.group(1)), int(m.group(2))
    want_ok = min(k, times)
    if ok != want_ok or bad != k - want_ok + j:
        return ("concurrent-admission-wrong", f"{k} matching calls" + (f" and {j} calls whose arguments fail `when`" if j else "") + f" from {threads} threads against times {times}: {ok} returned normally and {bad} panicked; exactly {want_ok} must return and {k - want_ok + j} must panic")
    if len(out) < 4 or out[2] != "EXIT":
        return ("protocol", f"stdout {out}")
    dropline = out[3]
    panics = [l[6:] for l in err if l.startswith("PANIC ")]
    if k != times:
        if dropline != "DROP-PANIC":
            return ("exit-verification-missed/concurrent", f"{k} matching calls from {threads} threads against times {times}, but scope exit did not panic")
        # stderr order: the panics of the refused calls, then the one of scope exit, then the
        # cross-ABI refusal at the very end
        msg = panics[bad] if bad < len(panics) else ""
        nums = re.findall(r"\d+", msg.split("##")[0])
        if str(times) not in nums or str(k) not in nums:
            return ("exit-count-wrong/concurrent", f"{k} matching calls from {threads} threads against times {times}; exit panic says {msg.split('##')[0]!r}")
    elif dropline != "DROPPED":
        return ("exit-verification-false-alarm/concurrent", f"exactly {times} matching calls from {threads} threads, yet scope exit gave {dropline!r}: {panics[bad:bad + 1]}")
    return None


def _model_block(opts, times, calls, rc, out, err, unwinds, li, pi, panics, ex, last, teardown=False, second=None):
    """one injector lifetime, starting at out[li] == "INSTALLED"; returns (verdict, li, pi)"""
    if li >= len(out) or out[li] != "INSTALLED":
        return ("install-failed", f"installation of the arm's fake failed: stdout {out[li:li+3]} stderr {err[:3]}"), li, pi
    count = 0  # every installation counts from zero
    li += 1
    for ci, (a, wmin, ak, rk) in enumerate(calls):
        if li >= len(out) or not out[li].startswith("CALL "):
            return ("protocol", f"call {ci}: missing CALL line; stdout {out[-4:]} stderr {err[-3:]}"), li, pi
        li += 1
        rejected = opts["when"] and not (a >= wmin)
        over = (not rejected) and opts["times"] and count >= times
        expect_panic = rejected or over
        want_msg = "unexpected arguments" if rejected else "more times than expected"
        if rejected:
            ex["when_rejected"] = True
        elif opts["when"]:
            ex["when_accepted"] = True
        if over:
            ex["over"] = True
        if not rejected:
            count += 1 if (not opts["times"] or True) else 0
        if expect_panic and not unwinds:
            # a panic in an ABI that cannot unwind aborts the process: this must be the last call
            if rc == 0 or li < len(out) and out[li].startswith("RESULT ok"):
                return (("when-not-enforced" if rejected else "times-not-enforced"), f"call {ci} (a={a}, when_min={wmin}, calls so far {count - 1}, times {times}) should have panicked ({want_msg}) but: {out[li] if li < len(out) else 'no output'}"), li, pi
            hit = [p for p in panics[pi:] if "##" in p]
            if not hit:
                return ("crash", f"call {ci}: process died (rc {rc}) without a panic: stderr {err[-3:]}"), li, pi
            if "assign_evals=0 ret_evals=0" not in hit[0]:
                return ("rejected-call-has-side-effects", f"call {ci} (a={a}, when_min={wmin}, times {times}) was rejected ({want_msg}) but `assign`/`returns` had already been evaluated when the panic was raised: {hit[0]!r}"), li, pi
            return None, len(out), pi
        if li >= len(out) or not out[li].startswith("RESULT "):
            return ("crash", f"call {ci}: no RESULT line (rc {rc}); stdout tail {out[-3:]} stderr tail {err[-4:]}"), li, pi
        f = out[li].split()
        li += 1
        kv = {f[i]: f[i + 1] for i in range(3 if f[1] == "ok" else 2, len(f) - 1, 2)}
        status = f[1]
        value = int(f[2]) if status == "ok" else None
        outv = int(kv["out"])
        aseq, rseq = int(kv["assign_seq"]), int(kv["ret_seq"])
        cev, rev, sev, oruns = int(kv["cond_evals"]), int(kv["ret_evals"]), int(kv["assign_evals"]), int(kv["orig_runs"])
        ctx = f"call {ci} (a={a}, when_min={wmin}, assign_k={ak}, ret_k={rk}, matching calls so far {count - (0 if rejected else 1)}, times {times if opts['times'] else None}): observed `{out[li-1]}`"
        if oruns != 0:
            return ("original-body-ran", ctx), li, pi
        if expect_panic:
            if status != "panic":
                return (("when-not-enforced" if rejected else "times-not-enforced"), ctx + f" -- expected a panic ({want_msg})"), li, pi
            # (the wording of the per-call panic is not part of the statement)
            pi += 1
            if outv != -99 or sev != 0 or aseq != 0:
                return ("rejected-call-has-side-effects", ctx + " -- a rejected call must not run `assign`"), li, pi
            if rev != 0 or rseq != 0:
                return ("rejected-call-evaluates-returns", ctx + " -- a rejected call must not evaluate `returns`"), li, pi
            continue
        if status != "ok":
            return ("unexpected-panic", ctx + f" -- panic {panics[pi] if pi < len(panics) else None!r}"), li, pi
        if opts["when"] and cev != 1:
            return ("when-evaluated-wrong-number-of-times", ctx), li, pi
        if opts["assign"]:
            if outv != a + ak or sev != 1 or aseq == 0:
                return ("assign-not-run", ctx + f" -- expected out == {a + ak}"), li, pi
        elif outv != -99:
            return ("out-written-without-assign", ctx), li, pi
        if opts["returns"]:
            ex["two_ret_k"].add(rk)
            if value != 2 * a + rk:
                return ("returns-not-evaluated-afresh", ctx + f" -- expected {2 * a + rk} (this call's arguments and RET_K)"), li, pi
            if rev != 1:
                return ("returns-evaluated-wrong-number-of-times", ctx), li, pi
            if opts["assign"] and not (0 < aseq < rseq):
                return ("assign-not-before-returns", ctx + " -- assign must run before returns is evaluated"), li, pi
        elif value != 0:
            return ("unit-arm-returned-value", ctx), li, pi
    # the fake from the second expansion of the arm (its own budget, its own counter)
    second_unmet = False
    if second is not None:
        mm = re.match(r"SECOND ok=(\d+) panic=(\d+)", out[li] if li < len(out) else "")
        if not mm:
            return ("protocol", f"missing SECOND line; stdout tail {out[-3:]} stderr tail {err[-3:]}"), li, pi
        li += 1
        ok2, bad2 = int(mm.group(1)), int(mm.group(2))
        want_ok2 = min(second, times) if opts["times"] else second
        if ok2 != want_ok2 or bad2 != second - want_ok2:
            return ("second-expansion-of-the-arm-shares-state", f"a fake from a second expansion of the same arm, installed on another function through the same injector, got {second} matching calls after the first fake had absorbed {count}: {ok2} returned and {bad2} panicked; with times {times if opts['times'] else None} exactly {want_ok2} must return and {second - want_ok2} must panic"), li, pi
        pi += bad2
        second_unmet = bool(opts["times"]) and second != times
    # exit
    if li >= len(out) or out[li] != "EXIT":
        return ("protocol", f"missing EXIT; stdout tail {out[-3:]} stderr tail {err[-3:]}"), li, pi
    li += 1
    dropline = out[li] if li < len(out) else ""
    # (no verdict is raised at scope exit while the thread is already unwinding)
    want_exit_panic = opts["times"] and (count != times or second_unmet) and not teardown
    if want_exit_panic:
        if dropline != "DROP-PANIC":
            return ("exit-verification-missed", f"{count} matching calls against times {times}, but scope exit did not panic ({dropline!r})"), li, pi
        msg = panics[pi] if pi < len(panics) else ""
        pi += 1
        nums = re.findall(r"\d+", msg.split("##")[0])
        names_first = count != times and str(times) in nums and str(count) in nums
        names_second = second_unmet and str(times) in nums and str(second) in nums
        if not (names_first or names_second):
            return ("exit-message-lacks-numbers", f"exit panic {msg!r} does not name both {times} and {count}" + (f" (or {times} and {second} for the second fake)" if second_unmet else "")), li, pi
    else:
        if dropline != "DROPPED":
            return ("exit-verification-false-alarm", f"{count} matching calls, times {times if opts['times'] else None}: scope exit gave {dropline!r} {panics[pi:] }"), li, pi
    after = out[li + 1] if li + 1 < len(out) else ""
    want_after = "AFTER 0 out -1" if opts["unit"] else "AFTER -7 out -1"
    if after != want_after:
        return ("original-not-back", f"after the scope the original gave `{after}`, expected `{want_after}`"), li, pi
    if last:
        xabi = out[li + 2] if li + 2 < len(out) else ""
        if xabi != "XABI refused":
            return ("fake-accepted-on-target-of-other-abi", f"the arm's fake (declared {opts['quals'] or 'fn'}) was installed on a target that differs only in ABI: `{xabi}`"), li, pi
    return None, li + 2, pi


def model_and_compare(opts, times, calls, rc, out, err, unwinds, more_blocks=(), teardown=False, second=None):
    """returns (None | (signature, message), classes exercised); blocks = consecutive lifetimes that
    evaluate the same fake! expression"""
    panics = [l[6:] for l in err if l.startswith("PANIC ")]
    ex = {"when_rejected": False, "when_accepted": False, "two_ret_k": set(), "over": False}
    blocks = [(times, calls)] + list(more_blocks)
    li, pi = 0, 0
    for bi, (t, cs) in enumerate(blocks):
        verdict, li, pi = _model_block(opts, t, cs, rc, out, err, unwinds, li, pi, panics, ex, bi + 1 == len(blocks), teardown=teardown, second=second if bi == 0 else None)
        if verdict is not None:
            if bi > 0:
                verdict = (verdict[0] + "/in-later-lifetime-of-same-site", f"lifetime {bi} of {len(blocks)} evaluating the same fake! expression: " + verdict[1])
            return verdict, ex
        if li >= len(out) and bi + 1 < len(blocks):
            return None, ex  # the process ended (abort of a non-unwinding arm) as predicted
    return None, ex


def cmd_c08(out_path, prop="C08"):
    from hypothesis import given, settings, seed, strategies as st, HealthCheck, Phase
    rule = "G: every arm of macro_rules! fake found in the working tree at check time, instantiated from its own matcher (literal tokens copied, fragments substituted by name and kind; every knob routed through a static so N, the `when` threshold and the values are run-time generated) and compiled as its own binary; Hypothesis-generated call scripts (1..12 calls of (a, when_min, assign_k, ret_k), times N in 0..4) against one common reference model parameterised only by which options the arm has; a compile error inside the expansion of fake! is a violation, anything else a harness error; non-trivial = script that exercises every option its arm has (a rejected and an accepted call if `when`, two calls with different RET_K if `returns`, an over-budget call if `times`); distinct by (arm, script)"
    rec = Recorder(prop, "g-arms", rule)
    rec.assumptions.append("rustc diagnostics are attributed through spans[].expansion.macro_decl_name; Hypothesis " + __import__("hypothesis").__version__ + " seeded with VERIF_SEED, database=None, deadline=None")
    src = open(os.path.join(REPO_COPY, "src", "interface", "macros.rs")).read()
    try:
        arms = parse_arms(src)
    except Exception as e:  # noqa
        rec.inconclusive.append(f"cannot parse macro_rules! fake: {e}")
        return rec.finish(out_path)
    bins = {}
    meta = {}
    internal = 0
    for idx, arm in enumerate(arms):
        inv, opts = instantiate(arm["matcher"])
        if inv is None:
            if opts == "internal helper arm":
                rec.count("internal_helper_arms")
                internal += 1
                continue
            rec.count("unsupported_arm")
            rec.notes.append(f"arm {idx} (line {arm['line']}): unsupported: {opts}")
            continue
        if "--only-times" in sys.argv and not opts["times"]:
            continue
        name = f"arm_{idx:02d}"
        bins[name] = render_arm(idx, arm, inv, opts)
        meta[name] = {"idx": idx, "line": arm["line"], "opts": opts, "invocation": inv}
    rec.count("arms_found", len(arms))
    rec.count("arms_instantiated", len(bins))
    if (len(bins) * 2 < len(arms) - internal and "--only-times" not in sys.argv) or not bins:
        rec.inconclusive.append(f"only {len(bins)} of {len(arms)} arms could be instantiated")
        return rec.finish(out_path)
    t0 = time.time()
    res, lib_errors, stderr_tail = build_crate({"C08": "c08", "C06": "c06arms"}.get(prop, "arms" + prop.lower()), bins)
    rec.count("build_s", int(time.time() - t0))
    if lib_errors:
        rec.inconclusive.append(f"the library itself does not compile: {lib_errors[0]['message']}")
        return rec.finish(out_path)
    n_scripts = scale(40, 1500)
    for name in sorted(bins):
        m = meta[name]
        o = m["opts"]
        label = f"{o['quals'] or 'safe'}/{'unit' if o['unit'] else 'value'}" + "".join("+" + k for k in ("when", "assign", "returns", "times") if o[k])
        if not res[name]["ok"]:
            errs = res[name]["errors"]
            in_fake = [e for e in errs if any("fake" in mm for mm in e["macros"])]
            if not in_fake and errs:
                # the same expressions compile in the ordinary `control` function of this very
                # file (no error is located there): what does not compile is the arm's use of them
                src_lines = bins[name].split("\n")
                lo = next((k + 1 for k, l in enumerate(src_lines) if l.startswith("// CONTROL-BEGIN")), None)
                hi = next((k + 1 for k, l in enumerate(src_lines) if l.startswith("// CONTROL-END")), None)
                inv = next((k + 1 for k, l in enumerate(src_lines) if "injectorpp::fake!(" in l), None)
                in_control = [e for e in errs if any(lo and hi and lo <= ln <= hi for ln in e.get("lines", []))]
                at_invocation = [e for e in errs if any(inv and ln == inv for ln in e.get("lines", []))]
                if not in_control and at_invocation:
                    in_fake = at_invocation
            rec.eval(lambda: {"arm": m["idx"], "line": m["line"], "options": label, "outcome": "does not compile"})
            if in_fake or errs:
                e = (in_fake or errs)[0]
                if in_fake:
                    msg = rec.fail(f"{prop}/arm-does-not-compile/{label}", f"arm {m['idx']} (macros.rs line {m['line']}, {label}) does not compile for a well-typed use `fake!({m['invocation']})`: {e['message']}\n{e['rendered']}")
                    if msg:
                        rec.violation(msg.split("]")[0][1:], msg, {"ArmCase": {"arm": m["idx"], "line": m["line"], "options": label, "compile_only": True}})
                else:
                    rec.inconclusive.append(f"arm {m['idx']}: compile error outside the expansion of fake!: {e['message']}")
            else:
                rec.inconclusive.append(f"arm {m['idx']}: build failed without diagnostics: {stderr_tail[-400:]}")
            continue
        exe = res[name]["exe"]
        unwinds = "extern" not in o["quals"]
        failure = {}

        call = st.tuples(st.integers(-50, 50), st.integers(-2, 2), st.integers(-100, 100), st.integers(-100, 100)).map(lambda t: (t[0], t[0] + t[1], t[2], t[3]))

        multi = prop == "C07"
        block = st.tuples(st.integers(0, 4), st.lists(call, min_size=0 if multi else 1, max_size=8 if multi else 12))

        @seed(SEED * 1000 + m["idx"])
        @settings(max_examples=n_scripts, database=None, deadline=None, derandomize=False, suppress_health_check=list(HealthCheck), phases=[Phase.generate, Phase.shrink])
        @given(blocks=st.lists(block, min_size=2 if multi else 1, max_size=3 if multi else 1), teardown=st.sampled_from([False, False, False, True]), second=st.sampled_from([None, None, None, 0, 1, 2, 3]))
        def prop_arm(blocks, teardown, second):
            if not unwinds:
                # a predicted panic aborts: keep at most one panicking call, as the last one of
                # the last lifetime
                kept = []
                for (t, calls) in blocks:
                    cnt = 0
                    cut = len(calls)
                    stop = False
                    for i, (a, w, k, r) in enumerate(calls):
                        rej = o["when"] and not (a >= w)
                        over = (not rej) and o["times"] and cnt >= t
                        if not rej:
                            cnt += 1
                        if rej or over:
                            cut = i + 1
                            stop = True
                            break
                    kept.append((t, calls[:cut]))
                    if stop:
                        break
                blocks = kept
            (times, calls), more = blocks[0], blocks[1:]
            if second is not None and not unwinds:
                # an over-budget call of the second fake would abort; so would nothing else: the
                # first lifetime must not end in an abort either, or the SECOND line is never printed
                second = min(second, times) if o["times"] else second
                if any((o["when"] and not (a >= w)) for (a, w, k, r) in calls) or (o["times"] and sum(1 for (a, w, k, r) in calls if not (o["when"] and not (a >= w))) > times):
                    second = None
            rc, out, err = run_arm(exe, times, calls, more_blocks=more, teardown=teardown, second=second)
            verdict, ex = model_and_compare(o, times, calls, rc, out, err, unwinds, more_blocks=more, teardown=teardown, second=second)
            if second is not None:
                rec.cls("second-expansion-of-the-arm-in-the-same-injector")
            rec.eval(lambda: {"arm": m["idx"], "line": m["line"], "options": label, "times": times, "calls": calls, "later_lifetimes": more, "from_tear_down_while_unwinding": teardown, "stdout_tail": out[-3:]})
            rec.cls(label)
            if teardown:
                rec.cls("script-run-from-tear-down-while-unwinding")
            if multi:
                absorbed = sum(1 for (a, w, k, r) in calls if not (o["when"] and not (a >= w)))
                rec.cls(f"lifetimes={len(blocks)}" + ("/earlier-lifetime-absorbed-calls" if absorbed and more else ""))
                if absorbed and more and any(cs for (_, cs) in more):
                    rec.nontriv([m["idx"], blocks])
            else:
                full = (not o["when"] or (ex["when_rejected"] and ex["when_accepted"])) and (not o["returns"] or len(ex["two_ret_k"]) >= 2) and (not o["times"] or ex["over"])
                if full and unwinds or (not unwinds and (ex["when_rejected"] or ex["over"] or len(ex["two_ret_k"]) >= 2)):
                    rec.nontriv([m["idx"], times, calls])
            if verdict is not None:
                msg = rec.fail(f"{prop}/{verdict[0]}/{label}", f"arm {m['idx']} (macros.rs line {m['line']}, {label}), times {times}, script {calls}" + (f", then lifetimes {more} evaluating the same fake! expression" if more else "") + (" [the script ran from a destructor while the thread was unwinding]" if teardown else "") + f": {verdict[1]}")
                if msg:
                    rec.frozen = True
                    failure["case"] = {"arm": m["idx"], "line": m["line"], "options": label, "times": times, "calls": [list(c) for c in calls], "more": [[t, [list(c) for c in cs]] for (t, cs) in more], "teardown": teardown, "second": second}
                    failure["msg"] = msg
                    raise AssertionError(msg)

        try:
            prop_arm()
        except AssertionError:
            rec.frozen = False
            rec.violation(failure["msg"].split("]")[0][1:], failure["msg"], {"ArmCase": failure["case"]})
        except Exception as e:  # noqa
            rec.frozen = False
            rec.inconclusive.append(f"arm {m['idx']}: harness error {type(e).__name__}: {e}")
        if prop in ("C06", "C08") and o["times"] and "case" not in failure:
            # the same arm under concurrent callers
            cfail = {}

            @seed(SEED * 1000 + 500 + m["idx"])
            @settings(max_examples=scale(16, 400), database=None, deadline=None, derandomize=False, suppress_health_check=list(HealthCheck), phases=[Phase.generate, Phase.shrink])
            @given(times=st.sampled_from([1, 2, 3, 0, 5]), threads=st.integers(2, 8), extra=st.sampled_from([1, 2, 0, -1, 3]), delay=st.sampled_from([1500, 300, 0]), rejected=st.sampled_from([0, 0, 1, 2]))
            def prop_conc(times, threads, extra, delay, rejected):
                k = max(0, times + extra)
                if not unwinds:
                    k = min(k, times)  # an over-budget call would abort the process
                # calls rejected by `when` arrive together with the matching ones (only where a
                # rejection can unwind)
                j = rejected if (o["when"] and unwinds) else 0
                rc, out, err = run_arm_conc(exe, times, threads, k, delay, j=j)
                verdict = model_conc(o, times, threads, k, out, err, j=j)
                rec.eval(lambda: {"arm": m["idx"], "options": label, "concurrent": {"times": times, "threads": threads, "calls": k, "rejected_calls": j, "delay_us": delay}, "stdout": out[:4]})
                rec.cls(f"concurrent/{label}" + ("/with-rejected-calls" if j else ""))
                if k >= 2:
                    rec.nontriv([m["idx"], "conc", times, threads, k, delay])
                if verdict is not None:
                    msg = rec.fail(f"{prop}/{verdict[0]}/{label}", f"arm {m['idx']} (macros.rs line {m['line']}, {label}): {verdict[1]}")
                    if msg:
                        rec.frozen = True
                        cfail["case"] = {"arm": m["idx"], "line": m["line"], "options": label, "concurrent": [times, threads, k, delay, j]}
                        cfail["msg"] = msg
                        raise AssertionError(msg)

            try:
                prop_conc()
            except AssertionError:
                rec.frozen = False
                rec.violation(cfail["msg"].split("]")[0][1:], cfail["msg"], {"ArmCase": cfail["case"]})
            except Exception as e:  # noqa
                rec.frozen = False
                if "case" in cfail:
                    # (a race does not fail on every run: Hypothesis calls that "flaky"; the run that
                    # failed produced real output that contradicts the model, which is a verdict)
                    rec.violation(cfail["msg"].split("]")[0][1:], cfail["msg"], {"ArmCase": cfail["case"]})
                else:
                    rec.inconclusive.append(f"arm {m['idx']} (concurrent): harness error {type(e).__name__}: {e}")
    rec.exhaustive_parts.append(f"arms: all {len(arms)} arms of macro_rules! fake in the working tree ({len(bins)} instantiated and compiled)")
    return rec.finish(out_path)


def sig_diff_components(a, b):
    """number of differing components between two generated signatures (None if arity differs by >1)"""
    import vgen_sig as g
    n = 0
    if a["unsafe"] != b["unsafe"]:
        n += 1
    if a["abi"] != b["abi"]:
        n += 1
    if g.render_ty(a["ret"]) != g.render_ty(b["ret"]):
        n += 1
    pa = [g.render_ty(p) for p in a["params"]]
    pb = [g.render_ty(p) for p in b["params"]]
    if len(pa) == len(pb):
        n += sum(1 for x, y in zip(pa, pb) if x != y)
    elif abs(len(pa) - len(pb)) == 1:
        longer, shorter = (pa, pb) if len(pa) > len(pb) else (pb, pa)
        n += 1 if any(longer[:k] + longer[k + 1:] == shorter for k in range(len(longer))) else 3
    else:
        n += 3
    return n


def cmd_family(out_path, prop):
    sys.path.insert(0, os.path.dirname(os.path.abspath(__file__)))
    import vgen_sig as g
    n = scale(40, 140)
    rule = ("G: seeded grammar family of N function-pointer types (arity 0-6; integers, floats, bool, char, (), &T/&mut T/*const T/*mut T, &str, slices, arrays, tuples, Option, two user structs, nested fn pointers, &dyn Fn; safe/unsafe; ABI Rust/C/system; look-alike returns) each with a target_i/replacement_i pair, compiled against the current tree; ALL ordered pairs (i, j) x every macro form each side supports (func!(f, T), func!(fn (f)(..) -> R), func_info:, unsafe{} / extern spellings, closure!) through when_called + will_execute_raw, plus async output pairs; oracle: same member => accepted and the call reaches the replacement; different member => panic containing `Signature mismatch`; members whose compiler-rendered names coincide are exercised, not judged; non-trivial = judged pairs that differ in exactly one component plus all identical pairs; distinct by (i, j, forms)"
            if prop == "C09" else
            "G: forced boolean over every member of the compiled signature family (return types incl. look-alikes `fn() -> bool`, `&dyn Fn() -> bool`, `Option<bool>`, `&bool`) through every target-side macro form: accepted iff the declared return type is exactly bool; non-trivial = member whose rendering ends in `-> bool` without returning bool, or a bool function; distinct by (member, form)")
    rec = Recorder(prop, "g-sigfamily", rule)
    fam = g.build_family(SEED, n)
    src = g.gen_program(fam)
    res, lib_errors, stderr_tail = build_crate("c09fam", {"family": src})
    if lib_errors:
        rec.inconclusive.append(f"the library itself does not compile: {lib_errors[0]['message']}")
        return rec.finish(out_path)
    if not res["family"]["ok"]:
        errs = res["family"]["errors"]
        rec.inconclusive.append("generated family does not compile (harness error): " + (errs[0]["rendered"][:1500] if errs else stderr_tail[-800:]))
        return rec.finish(out_path)
    p = subprocess.run([res["family"]["exe"]], stdout=subprocess.PIPE, stderr=subprocess.PIPE, text=True, timeout=1200)
    if p.returncode != 0:
        rec.eval(lambda: {"outcome": "family binary died", "rc": p.returncode})
        msg = rec.fail(f"{prop}/compiled/died", f"the family binary died with status {p.returncode}; last lines {p.stdout.splitlines()[-3:]} stderr {p.stderr[-300:]}")
        if msg:
            rec.violation(f"{prop}/compiled/died", msg, {"FamilyCase": {"seed": SEED, "n": n}})
        return rec.finish(out_path)
    names = {}
    rows = []
    for l in p.stdout.splitlines():
        f = l.split("\t")
        if len(f) < 8:
            continue
        kind, i, j, ft, fr, ok, hit, msg = f[0], int(f[1]), int(f[2]), f[3], f[4], f[5] == "true", int(f[6]), f[7]
        if kind == "name":
            names[i] = msg
        else:
            rows.append((kind, i, j, ft, fr, ok, hit, msg))
    # self-check of the grammar's rendering against rustc's type_name (informational)
    mism = [(g.render_sig(fam[i]), names[i]) for i in names if g.render_sig(fam[i]).replace("'static ", "").replace(" + 'static", "") != names[i].replace("family::", "").replace("core::option::", "").replace("core::ops::function::", "").replace("alloc::string::", "")]
    rec.count("type_name_rendering_differs", len(mism))
    if mism:
        rec.notes.append(f"rustc renders {len(mism)} of {len(names)} family members differently from the grammar (lifetime binders etc.), e.g. {mism[0][0]!r} -> {mism[0][1]!r}; judged by member identity, never by string")
    for (kind, i, j, ft, fr, ok, hit, msg) in rows:
        if prop == "C09" and kind == "pair":
            same = i == j
            samename = names.get(i) == names.get(j)
            rec.eval(lambda: {"target": g.render_sig(fam[i]), "replacement": g.render_sig(fam[j]), "forms": [ft, fr], "accepted": ok, "message": msg[:120]})
            if not same and samename:
                rec.count("exercised_not_judged_same_rendering")
                continue
            if same:
                want_hit = 3000 if fr == "closure" else 2000 + j
                if not ok:
                    m = rec.fail("C09/compiled/identical-pair-refused", f"identically written pair refused: {g.render_sig(fam[i])} via forms {ft}/{fr}: {msg}")
                elif hit != want_hit:
                    m = rec.fail("C09/compiled/accepted-but-not-redirected", f"accepted pair {g.render_sig(fam[i])} via {ft}/{fr}: the call recorded {hit}, expected {want_hit}")
                else:
                    m = None
                rec.cls("identical/" + ft + "/" + fr)
                rec.nontriv(["same", i, ft, fr])
            else:
                d = sig_diff_components(fam[i], fam[j])
                if ok:
                    m = rec.fail("C09/compiled/different-pair-accepted", f"structurally different pair accepted: target {g.render_sig(fam[i])} vs replacement {g.render_sig(fam[j])} (forms {ft}/{fr}, {d} differing component(s))")
                elif "mismatch" not in msg.lower():
                    m = rec.fail("C09/compiled/refusal-without-proper-message", f"refusal of {g.render_sig(fam[i])} vs {g.render_sig(fam[j])} panicked with {msg!r} (no signature-mismatch message)")
                else:
                    m = None
                rec.cls("different/%s-component" % ("1" if d == 1 else "2" if d == 2 else "3+"))
                if d == 1:
                    rec.nontriv(["diff", i, j, ft, fr])
            if m:
                rec.violation(m.split("]")[0][1:], m, {"FamilyCase": {"seed": SEED, "n": n, "i": i, "j": j, "forms": [ft, fr]}})
                break
        elif prop == "C09" and kind == "async":
            rec.eval(lambda: {"async_pair": [i, j], "accepted": ok})
            m = None
            if (i == j) != ok:
                m = rec.fail("C09/compiled/async-output-" + ("refused" if i == j else "accepted"), f"async output pair ({i},{j}): accepted={ok} msg={msg!r}")
            elif not ok and "mismatch" not in msg.lower():
                m = rec.fail("C09/compiled/refusal-without-proper-message", f"async refusal message {msg!r}")
            rec.cls("async/" + ("same" if i == j else "different"))
            rec.nontriv(["async", i, j])
            if m:
                rec.violation(m.split("]")[0][1:], m, {"FamilyCase": {"seed": SEED, "n": n, "async": [i, j]}})
                break
        elif prop == "C09" and kind == "homonym":
            rec.eval(lambda: {"homonym_block_local_structs": "fn(S) -> u8 twice", "accepted": ok})
            rec.cls("homonym-nominal-types")
            if ok:
                m = rec.fail("C09/compiled/homonym-nominal-types", "two distinct block-local structs named S (1 byte vs 24 bytes) in fn(S) -> u8: type_name renders both identically and the installation is accepted")
                if m:
                    rec.violation(m.split("]")[0][1:], m, {"FamilyCase": {"seed": SEED, "n": n, "homonym": True}})
                    break
        elif prop == "C10" and kind == "bool":
            is_bool = fam[i]["ret"].kind == "prim" and fam[i]["ret"].a[0] == "bool"
            looks = g.render_sig(fam[i]).rstrip().endswith("-> bool") or names.get(i, "").rstrip().endswith("-> bool") or g.render_sig(fam[i]).rstrip().endswith("bool")
            rec.eval(lambda: {"signature": g.render_sig(fam[i]), "form": ft, "accepted": ok})
            rec.cls("returns-bool" if is_bool else ("look-alike" if looks else "other"))
            m = None
            if is_bool and not ok:
                m = rec.fail("C10/compiled/bool-function-refused", f"{g.render_sig(fam[i])} via {ft}: {msg}")
            if not is_bool and ok:
                m = rec.fail("C10/compiled/non-bool-accepted" + ("/ends-with-arrow-bool" if looks else ""), f"will_return_boolean accepted {g.render_sig(fam[i])} (rustc name {names.get(i)!r}) via {ft}")
            if is_bool or looks:
                rec.nontriv(["bool", i, ft])
            if m:
                rec.violation(m.split("]")[0][1:], m, {"FamilyCase": {"seed": SEED, "n": n, "bool_member": i, "form": ft}})
                break
    rec.exhaustive_parts.append(f"all ordered pairs of the {len(fam)}-member family x all macro forms (exhaustive over pairs, seeded over the family)")
    return rec.finish(out_path)


def cmd_replay(path):
    d = json.load(open(path))
    if "FamilyCase" in d["case"]:
        # the family is a function of the seed: re-run the whole (cheap) family check
        os.environ["VERIF_SEED"] = str(d["case"]["FamilyCase"].get("seed", 1))
        global SEED
        SEED = int(os.environ["VERIF_SEED"])
        out = os.path.join(WORK, "partials", "replay-family.json")
        rc = cmd_family(out, d.get("property", "C09"))
        r = json.load(open(out))
        if r["violations"]:
            print("replay:", r["violations"][0]["message"][:600])
            print(f"VIOLATION property={d.get('property')} replay={path}")
            return 1
        print("replay: property holds on this family (known-finding hits: %s)" % r["known_hits"])
        return 0 if rc in (0,) else rc
    case = d["case"].get("ArmCase")
    prop = d.get("property", "C08")
    if not case:
        print("unknown case kind")
        return 2
    src = open(os.path.join(REPO_COPY, "src", "interface", "macros.rs")).read()
    arms = parse_arms(src)
    idx = case["arm"]
    if idx >= len(arms):
        print("replay: arm index no longer exists")
        return 2
    inv, opts = instantiate(arms[idx]["matcher"])
    if inv is None:
        print("replay: arm not instantiable:", opts)
        return 2
    name = f"arm_{idx:02d}"
    res, lib_errors, _ = build_crate("c08replay", {name: render_arm(idx, arms[idx], inv, opts)})
    rec = Recorder(prop, "g-arms", "replay")
    if not res[name]["ok"]:
        errs = [e for e in res[name]["errors"] if any("fake" in mm for mm in e["macros"])]
        if errs:
            label = case.get("options", "")
            if rec.fail(f"C08/arm-does-not-compile/{label}", "x") is None:
                print("replay: known finding")
                return 0
            print("replay: arm does not compile:", errs[0]["message"])
            print(f"VIOLATION property={prop} replay={path}")
            return 1
        print("replay: build failed outside the macro")
        return 2
    if case.get("compile_only"):
        print("replay: arm compiles now; property holds on this case")
        return 0
    if case.get("concurrent"):
        times, threads, k, delay = case["concurrent"][:4]
        j = case["concurrent"][4] if len(case["concurrent"]) > 4 else 0
        # a race may need several attempts to show again; one failing attempt is a reproduction
        for attempt in range(20):
            rc, out, err = run_arm_conc(res[name]["exe"], times, threads, k, delay, j=j)
            verdict = model_conc(opts, times, threads, k, out, err, j=j)
            if verdict is not None:
                print("replay:", verdict, f"(attempt {attempt + 1})")
                print(f"VIOLATION property={prop} replay={path}")
                return 1
        print("replay: property holds on this case (20 attempts)")
        return 0
    calls = [tuple(c) for c in case["calls"]]
    more = [(t, [tuple(c) for c in cs]) for (t, cs) in case.get("more", [])]
    td = bool(case.get("teardown"))
    sec = case.get("second")
    rc, out, err = run_arm(res[name]["exe"], case["times"], calls, more_blocks=more, teardown=td, second=sec)
    verdict, _ = model_and_compare(opts, case["times"], calls, rc, out, err, "extern" not in opts["quals"], more_blocks=more, teardown=td, second=sec)
    if verdict is None:
        print("replay: property holds on this case")
        return 0
    print("replay:", verdict)
    print(f"VIOLATION property={prop} replay={path}")
    return 1


def main():
    if len(sys.argv) < 2:
        print(__doc__)
        return 2
    cmd = sys.argv[1]
    out = None
    if "--out" in sys.argv:
        out = sys.argv[sys.argv.index("--out") + 1]
    prop = sys.argv[sys.argv.index("--property") + 1] if "--property" in sys.argv else None
    if cmd == "c08":
        return cmd_c08(out or os.path.join(WORK, "partials", "adhoc-g.json"), prop or "C08")
    if cmd == "family":
        return cmd_family(out or os.path.join(WORK, "partials", "adhoc-fam.json"), prop or "C09")
    if cmd == "replay":
        return cmd_replay(sys.argv[2])
    print(__doc__)
    return 2


if __name__ == "__main__":
    sys.exit(main())
