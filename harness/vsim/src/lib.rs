//! vsim library: engines S1/S2 (the repository's unmodified arch-specific sources compiled on the
//! host against simulated memory).  Used by the `vsim` binary and by the libFuzzer target.

#[cfg(feature = "s1")]
pub mod s1;
#[cfg(feature = "s2")]
pub mod s2;
pub mod selftest;
pub mod shim;
pub mod sut;

include!(concat!(env!("OUT_DIR"), "/variants.rs"));

/// [lo, hi) of this executable's text mapping (for resolving truncated host pointers).
pub fn text_range() -> (u64, u64) {
    use std::sync::OnceLock;
    static R: OnceLock<(u64, u64)> = OnceLock::new();
    *R.get_or_init(|| {
        let me = text_range as fn() -> (u64, u64) as usize as u64;
        let maps = std::fs::read_to_string("/proc/self/maps").unwrap_or_default();
        for l in maps.lines() {
            let mut it = l.split_whitespace();
            let range = it.next().unwrap_or("");
            let perms = it.next().unwrap_or("");
            if let Some((a, b)) = range.split_once('-') {
                let (a, b) = (u64::from_str_radix(a, 16).unwrap_or(0), u64::from_str_radix(b, 16).unwrap_or(0));
                if perms.contains('x') && me >= a && me < b {
                    return (a, b);
                }
            }
        }
        (0, 0)
    })
}
