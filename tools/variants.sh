#!/bin/bash
# variants.sh [props...]: apply every property-preserving refactor under /verif/variants to a scratch
# copy of /repo and run the quick checks against it: all must stay silent (false-alarm audit).
set -u
V=$(cd "$(dirname "$0")/.." && pwd)   # the tree this script lives in (a `vp run` snapshot stays self-contained)
cd $V
bad=0
for v in variants/*.diff; do
  d=/var/tmp/verif-varsrc-$$
  rm -rf $d; mkdir -p $d
  cp -r /repo/Cargo.toml /repo/Cargo.lock /repo/src /repo/tests $d/
  if ! ( cd $d && git init -q . && git apply $V/$v ); then echo "$v does not apply"; rm -rf $d; continue; fi
  rm -rf $d/.git
  out=$(tools/try_variant.sh $d "$@" 2>&1 | grep -v " ok$")
  if [ -n "$out" ]; then bad=$((bad+1)); echo "##### $v"; echo "$out"; else echo "$v: silent"; fi
  rm -rf $d
done
echo "variants with non-silent checks: $bad"
exit $([ $bad -eq 0 ] && echo 0 || echo 1)
