#!/bin/bash
# Runs the repository's own pinned suite (hooks: none exist; guard off is the only configuration).
cd "${VERIF_REPO:-/repo}" || exit 2
if [ -f /w/lib/nextest.toml ] && cargo nextest --version >/dev/null 2>&1; then
  exec cargo nextest run --workspace --no-fail-fast --tool-config-file pb:/w/lib/nextest.toml --profile pb --test-threads 8 --offline
else
  exec cargo test --workspace --no-fail-fast --offline
fi
