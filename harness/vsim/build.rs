//! Copies the *unmodified* architecture-specific sources of the working tree into OUT_DIR so
//! that they can be compiled on this x86-64 host, once per simulated variant.
//!
//! Exactly three textual rewrites are applied, each asserted to hit what it is meant to hit
//! (otherwise the build fails => the checks report "inconclusive", never a violation):
//!   1. the file-level `#![cfg(target_arch = "...")]` line is removed;
//!   2. `crate::injector_core::` becomes `crate::<variant>::injector_core::` (module re-rooting);
//!   3. macOS variant only: `target_os = "macos"` becomes `all()` (and the host's
//!      `target_os = "linux"` becomes `any()`), so the macOS code paths are the ones compiled.

use std::fs;
use std::path::{Path, PathBuf};

struct Variant {
    name: &'static str,
    files: &'static [&'static str],
    macos: bool,
    real_common: bool,
}

const VARIANTS: &[Variant] = &[
    Variant { name: "s1_amd64", files: &["patch_trait", "patch_amd64"], macos: false, real_common: false },
    Variant { name: "s1_arm64_linux", files: &["patch_trait", "utils", "arm64_codegenerator", "patch_arm64"], macos: false, real_common: false },
    Variant { name: "s1_arm64_macos", files: &["patch_trait", "utils", "arm64_codegenerator", "patch_arm64"], macos: true, real_common: false },
    Variant { name: "s1_arm", files: &["patch_trait", "patch_arm"], macos: false, real_common: false },
    Variant { name: "s2_amd64", files: &["patch_trait", "patch_amd64", "common", "linuxapi"], macos: false, real_common: true },
    Variant { name: "s2_arm64_linux", files: &["patch_trait", "utils", "arm64_codegenerator", "patch_arm64", "common", "linuxapi"], macos: false, real_common: true },
    Variant { name: "s2_arm", files: &["patch_trait", "patch_arm", "common", "linuxapi"], macos: false, real_common: true },
];

fn repo_dir() -> PathBuf {
    if let Ok(p) = std::env::var("VERIF_REPO") {
        return PathBuf::from(p);
    }
    let manifest = PathBuf::from(std::env::var("CARGO_MANIFEST_DIR").unwrap());
    manifest.join("../../work/repo")
}

fn transform(src: &str, file: &str, v: &Variant) -> String {
    let mut out = String::new();
    let mut stripped = 0;
    for line in src.lines() {
        let t = line.trim();
        if t.starts_with("#![cfg(target_arch") {
            stripped += 1;
            out.push_str("// [vsim] file-level target_arch cfg removed\n");
            continue;
        }
        out.push_str(line);
        out.push('\n');
    }
    let arch_gated = matches!(file, "patch_amd64" | "patch_arm64" | "patch_arm" | "utils" | "arm64_codegenerator");
    if arch_gated && stripped != 1 {
        // tolerated: a future tree may gate differently; but then the file must still compile.
        println!("cargo:warning=vsim: {file}.rs had {stripped} file-level target_arch cfg lines (expected 1)");
    }
    let rooted = out.replace("crate::injector_core::", &format!("crate::{}::injector_core::", v.name));
    let rooted = rooted.replace("super::", &format!("crate::{}::injector_core::", v.name));
    if v.macos {
        let n = rooted.matches("target_os = \"macos\"").count();
        if file == "patch_arm64" && n == 0 {
            panic!("vsim: no macOS cfg found in patch_arm64.rs; macOS variant cannot be derived");
        }
        rooted
            .replace("target_os = \"macos\"", "all()")
            .replace("target_os = \"linux\"", "any()")
    } else {
        rooted
    }
}

fn main() {
    let out_dir = PathBuf::from(std::env::var("OUT_DIR").unwrap());
    let repo = repo_dir();
    let core = repo.join("src/injector_core");
    println!("cargo:rerun-if-env-changed=VERIF_REPO");
    println!("cargo:rerun-if-changed=build.rs");
    let mut variants_rs = String::new();
    let want_s1 = std::env::var("CARGO_FEATURE_S1").is_ok();
    let want_s2 = std::env::var("CARGO_FEATURE_S2").is_ok();
    for v in VARIANTS {
        if (v.real_common && !want_s2) || (!v.real_common && !want_s1) {
            continue;
        }
        let vdir = out_dir.join(v.name);
        fs::create_dir_all(&vdir).unwrap();
        variants_rs.push_str(&format!(
            "#[allow(dead_code, unused_imports, unused_variables, unused_mut, clippy::all)]\npub mod {} {{\n    pub mod injector_core {{\n",
            v.name
        ));
        if !v.real_common {
            // functions of the real common.rs that the shim does not model and that return nothing
            // (e.g. a new "seal this block" helper) become no-ops, so that a tree that grew such a
            // helper still builds here; anything that returns a value is left undefined (the
            // engine then does not build and reports that)
            let extra = extra_stubs(&core.join("common.rs"));
            let dst = vdir.join("common_extra.rs");
            write_if_changed(&dst, &extra);
            variants_rs.push_str(&format!("        pub mod common {{ pub use crate::shim::*; use libc::*; include!({:?}); }}\n", dst.to_string_lossy()));
        }
        for f in v.files {
            let p = core.join(format!("{f}.rs"));
            println!("cargo:rerun-if-changed={}", p.display());
            let src = fs::read_to_string(&p).unwrap_or_else(|e| panic!("vsim: cannot read {}: {e}", p.display()));
            let dst = vdir.join(format!("{f}.rs"));
            write_if_changed(&dst, &transform(&src, f, v));
            variants_rs.push_str(&format!(
                "        #[path = {:?}]\n        pub mod {};\n",
                dst.to_string_lossy(),
                f
            ));
        }
        variants_rs.push_str("    }\n}\n");
    }
    write_if_changed(&out_dir.join("variants.rs"), &variants_rs);
}

const SHIM_FNS: &[&str] = &["allocate_jit_memory", "read_bytes", "patch_function", "inject_asm_code"];

fn extra_stubs(common: &Path) -> String {
    let Ok(src) = fs::read_to_string(common) else { return String::new() };
    let mut out = String::from("// [vsim] generated no-op stand-ins for unit-returning helpers of common.rs\n");
    let mut seen: Vec<String> = vec![];
    let mut rest = src.as_str();
    while let Some(i) = rest.find("pub(crate) ") {
        rest = &rest[i + "pub(crate) ".len()..];
        let (is_unsafe, after) = if let Some(a) = rest.strip_prefix("unsafe fn ") { (true, a) } else if let Some(a) = rest.strip_prefix("fn ") { (false, a) } else { continue };
        let Some(paren) = after.find('(') else { continue };
        let name = after[..paren].trim().to_string();
        if name.contains('<') || SHIM_FNS.contains(&name.as_str()) || seen.contains(&name) {
            continue;
        }
        // parameter list up to the matching parenthesis
        let mut depth = 0i32;
        let mut end = None;
        for (k, ch) in after[paren..].char_indices() {
            match ch {
                '(' => depth += 1,
                ')' => {
                    depth -= 1;
                    if depth == 0 {
                        end = Some(paren + k);
                        break;
                    }
                }
                _ => {}
            }
        }
        let Some(end) = end else { continue };
        let params = &after[paren + 1..end];
        let tail = after[end + 1..].trim_start();
        if !tail.starts_with('{') {
            continue; // returns something (or has a where clause): not modelled
        }
        if params.contains("self") {
            continue;
        }
        // split at top-level commas only (`Vec<(usize, usize)>` is one parameter)
        let mut pieces: Vec<String> = vec![String::new()];
        let mut d = 0i32;
        for ch in params.chars() {
            match ch {
                '<' | '(' | '[' => d += 1,
                '>' | ')' | ']' => d -= 1,
                _ => {}
            }
            if ch == ',' && d == 0 {
                pieces.push(String::new());
            } else {
                pieces.last_mut().unwrap().push(ch);
            }
        }
        let plist: Vec<String> = pieces
            .iter()
            .map(|p| p.trim())
            .filter(|p| !p.is_empty())
            .enumerate()
            .filter_map(|(k, p)| p.split_once(':').map(|(_, ty)| format!("_p{k}: {}", ty.trim())))
            .collect();
        out.push_str(&format!("pub(crate) {}fn {name}({}) {{}}\n", if is_unsafe { "unsafe " } else { "" }, plist.join(", ")));
        seen.push(name);
    }
    out
}

fn write_if_changed(p: &Path, s: &str) {
    if fs::read_to_string(p).map(|old| old == s).unwrap_or(false) {
        return;
    }
    fs::write(p, s).unwrap();
}
