//! Executable-level interposition of the platform calls the injector makes.
//!
//! `mmap`, `mmap64`, `munmap`, `mprotect` and `__clear_cache` are *defined in this executable*.
//! The statically linked `injectorpp` and `libc` rlibs resolve their references to these
//! definitions (objects of the link unit win over libc.so / libgcc), while glibc's own internal
//! callers keep using their private aliases.  Outside a "SUT section" (a per-thread flag the
//! harness raises around every call into the library) the functions are pure pass-throughs via
//! raw `syscall`; inside, they log, follow the case's fault/layout plan and honour pause points.

use std::cell::Cell;
use std::sync::atomic::{AtomicI64, AtomicU64, AtomicU8, AtomicUsize, Ordering::SeqCst};
use std::sync::Mutex;

pub const MAP_FAILED: usize = !0usize;
const MAP_FIXED_NOREPLACE: i64 = 0x100000;

thread_local! {
    static IN_SUT: Cell<u32> = const { Cell::new(0) };
}

pub struct SutGuard;
impl SutGuard {
    pub fn enter() -> SutGuard {
        IN_SUT.with(|c| c.set(c.get() + 1));
        SutGuard
    }
}
impl Drop for SutGuard {
    fn drop(&mut self) {
        IN_SUT.with(|c| c.set(c.get().saturating_sub(1)));
    }
}
pub fn in_sut() -> bool {
    IN_SUT.with(|c| c.get() > 0)
}

/// Run `f` as "library code": interposed calls made on this thread are logged / planned.
pub fn sut<R>(f: impl FnOnce() -> R) -> R {
    let _g = SutGuard::enter();
    f()
}

#[derive(Clone, Copy, Debug, PartialEq, Eq)]
pub enum Kind {
    Mmap = 1,
    Munmap = 2,
    Mprotect = 3,
    Flush = 4,
}

#[derive(Clone, Debug)]
pub struct Ev {
    pub seq: u64,
    pub kind: Kind,
    pub a0: u64,
    pub a1: u64,
    pub a2: u64,
    pub ret: u64,
    pub tid: u64,
    /// for Flush: copy of (at most 64 bytes of) the range at call time, if readable
    pub bytes: Vec<u8>,
}

static LOG: Mutex<Vec<Ev>> = Mutex::new(Vec::new());
static SEQ: AtomicU64 = AtomicU64::new(0);
/// number of failed-mmap entries kept per section (a full-window search is 65 537 calls)
static FAILED_LOGGED: AtomicUsize = AtomicUsize::new(0);
pub static MMAP_CALLS: AtomicU64 = AtomicU64::new(0);
pub static MMAP_FAILS: AtomicU64 = AtomicU64::new(0);

pub fn log_clear() {
    LOG.lock().unwrap().clear();
    FAILED_LOGGED.store(0, SeqCst);
    MMAP_CALLS.store(0, SeqCst);
    MMAP_FAILS.store(0, SeqCst);
}
pub fn log_take() -> Vec<Ev> {
    FAILED_LOGGED.store(0, SeqCst);
    std::mem::take(&mut *LOG.lock().unwrap())
}
pub fn log_len() -> usize {
    LOG.lock().unwrap().len()
}
pub fn log_snapshot() -> Vec<Ev> {
    LOG.lock().unwrap().clone()
}

fn push(kind: Kind, a0: u64, a1: u64, a2: u64, ret: u64, bytes: Vec<u8>) {
    let seq = SEQ.fetch_add(1, SeqCst);
    let tid = unsafe { raw_syscall(186, 0, 0, 0, 0, 0, 0) } as u64; // gettid
    if let Ok(mut l) = LOG.lock() {
        l.push(Ev { seq, kind, a0, a1, a2, ret, tid, bytes });
    }
}

// ------------------------------------------------------------------------------------------------
// plan

pub const MODE_PASS: u8 = 0;
/// only the hint whose page equals GRANT_PAGE is granted (really mapped there); every other
/// hint fails with MAP_FAILED
pub const MODE_GRANT_ONLY: u8 = 1;
/// every mmap fails
pub const MODE_FAIL_ALL: u8 = 2;
/// layout model: hints whose page is in FREE_PAGES are granted; others follow FALLBACK
pub const MODE_LAYOUT: u8 = 3;

pub const FB_FAR: u8 = 0; // like Linux: the kernel picks another address (real hint-less mmap)
pub const FB_FAIL: u8 = 1; // MAP_FAILED
pub const FB_NEAR: u8 = 2; // adversarial: a free page of the layout, the one at index NEAR_INDEX

pub static MODE: AtomicU8 = AtomicU8::new(MODE_PASS);
pub static GRANT_PAGE: AtomicU64 = AtomicU64::new(0);
pub static FALLBACK: AtomicU8 = AtomicU8::new(FB_FAR);
pub static NEAR_INDEX: AtomicUsize = AtomicUsize::new(0);
pub static FREE_PAGES: Mutex<Vec<u64>> = Mutex::new(Vec::new());
/// 1-based ordinal (within the section) of the mprotect call that fails; 0 = none
pub static MPROTECT_FAIL_AT: AtomicI64 = AtomicI64::new(0);
pub static MPROTECT_CALLS: AtomicI64 = AtomicI64::new(0);
/// every mprotect whose range covers this page fails (0 = none)
pub static MPROTECT_FAIL_PAGE: AtomicU64 = AtomicU64::new(0);
/// != 0: every mprotect asking for PROT_WRITE|PROT_EXEC at once fails with EACCES
pub static DENY_WX: AtomicU8 = AtomicU8::new(0);
/// consecutive interposed mmap calls without an mprotect in between (reset per plan as well)
pub static MMAP_RUN: AtomicU64 = AtomicU64::new(0);
/// (address, length) of every successful mprotect the library made WITHOUT PROT_EXEC
pub static NOEXEC_CALLS: Mutex<Vec<(u64, u64)>> = Mutex::new(Vec::new());
pub fn noexec_take() -> Vec<(u64, u64)> {
    NOEXEC_CALLS.lock().map(|mut v| std::mem::take(&mut *v)).unwrap_or_default()
}
/// n > 0: just before the n-th mmap the library makes from now on reaches the kernel, somebody
/// else (another thread of the program) maps the hinted page for itself and writes RACE_MAGIC
/// into it
pub static RACE_MAP_IN: AtomicI64 = AtomicI64::new(0);
pub static RACED: Mutex<Vec<u64>> = Mutex::new(Vec::new());
pub const RACE_MAGIC: u64 = 0x5AFE_C0DE_0BAD_F00D;
/// n > 0: the n-th mmap the library makes from now on fails with ENOMEM (a process at its mapping
/// limit), the others are answered as usual
pub static MMAP_FAIL_IN: AtomicI64 = AtomicI64::new(0);
/// n > 0: the n-th munmap the library makes from now on fails (EINVAL, nothing is unmapped)
pub static MUNMAP_FAIL_IN: AtomicI64 = AtomicI64::new(0);
/// (address, length) of the munmap calls that were made to fail (the harness releases them later)
pub static FAILED_UNMAPS: Mutex<Vec<(u64, u64)>> = Mutex::new(Vec::new());
/// number of mprotect calls that were made to fail since the last plan_reset
pub static MPROTECT_FAILS: AtomicU64 = AtomicU64::new(0);

/// Pause points: (kind, 1-based ordinal of that kind within the section); the calling thread
/// then waits until RELEASE is bumped or PAUSE_MAX_US elapsed.
pub static PAUSE_KIND: AtomicU8 = AtomicU8::new(0);
pub static PAUSE_ORDINAL: AtomicI64 = AtomicI64::new(0);
pub static PAUSE_MAX_US: AtomicU64 = AtomicU64::new(0);
pub static PAUSE_RELEASE: AtomicU64 = AtomicU64::new(0);
pub static PAUSES_TAKEN: AtomicU64 = AtomicU64::new(0);
static KIND_COUNT: [AtomicI64; 5] = [AtomicI64::new(0), AtomicI64::new(0), AtomicI64::new(0), AtomicI64::new(0), AtomicI64::new(0)];

pub fn plan_reset() {
    MODE.store(MODE_PASS, SeqCst);
    GRANT_PAGE.store(0, SeqCst);
    FALLBACK.store(FB_FAR, SeqCst);
    NEAR_INDEX.store(0, SeqCst);
    FREE_PAGES.lock().unwrap().clear();
    MPROTECT_FAIL_AT.store(0, SeqCst);
    MPROTECT_FAIL_PAGE.store(0, SeqCst);
    MUNMAP_FAIL_IN.store(0, SeqCst);
    MMAP_FAIL_IN.store(0, SeqCst);
    RACE_MAP_IN.store(0, SeqCst);
    DENY_WX.store(0, SeqCst);
    let _ = noexec_take();
    MMAP_RUN.store(0, SeqCst);
    MPROTECT_FAILS.store(0, SeqCst);
    MPROTECT_CALLS.store(0, SeqCst);
    clear_flush_hook();
    PAUSE_KIND.store(0, SeqCst);
    PAUSE_ORDINAL.store(0, SeqCst);
    PAUSE_MAX_US.store(0, SeqCst);
    if let Ok(mut v) = PAUSE_SET.lock() {
        v.clear();
    }
    for k in &KIND_COUNT {
        k.store(0, SeqCst);
    }
}

/// additional pause points (kind, ordinal); same semantics as PAUSE_KIND/PAUSE_ORDINAL
pub static PAUSE_SET: Mutex<Vec<(u8, i64)>> = Mutex::new(Vec::new());

fn maybe_pause(kind: Kind) {
    let n = KIND_COUNT[kind as usize].fetch_add(1, SeqCst) + 1;
    let in_set = PAUSE_MAX_US.load(SeqCst) > 0 && PAUSE_SET.lock().map(|v| v.iter().any(|p| p.0 == kind as u8 && p.1 == n)).unwrap_or(false);
    if in_set || (PAUSE_KIND.load(SeqCst) == kind as u8 && PAUSE_ORDINAL.load(SeqCst) == n) {
        let max = PAUSE_MAX_US.load(SeqCst);
        let start_rel = PAUSE_RELEASE.load(SeqCst);
        PAUSES_TAKEN.fetch_add(1, SeqCst);
        let t0 = std::time::Instant::now();
        while PAUSE_RELEASE.load(SeqCst) == start_rel && (t0.elapsed().as_micros() as u64) < max {
            std::thread::yield_now();
        }
    }
}

// ------------------------------------------------------------------------------------------------
// raw syscalls (never routed through the interposed symbols)

#[inline(never)]
pub unsafe fn raw_syscall(n: i64, a: i64, b: i64, c: i64, d: i64, e: i64, f: i64) -> i64 {
    let ret: i64;
    core::arch::asm!(
        "syscall",
        inlateout("rax") n => ret,
        in("rdi") a, in("rsi") b, in("rdx") c, in("r10") d, in("r8") e, in("r9") f,
        lateout("rcx") _, lateout("r11") _,
        options(nostack)
    );
    ret
}

fn set_errno(e: i32) {
    unsafe { *libc::__errno_location() = e };
}

pub unsafe fn sys_mmap(addr: usize, len: usize, prot: i32, flags: i32, fd: i32, off: i64) -> usize {
    let r = raw_syscall(9, addr as i64, len as i64, prot as i64, flags as i64, fd as i64, off);
    if r < 0 && r > -4096 {
        set_errno(-r as i32);
        MAP_FAILED
    } else {
        r as usize
    }
}
pub unsafe fn sys_munmap(addr: usize, len: usize) -> i32 {
    let r = raw_syscall(11, addr as i64, len as i64, 0, 0, 0, 0);
    if r < 0 {
        set_errno(-r as i32);
        -1
    } else {
        0
    }
}
pub unsafe fn sys_mprotect(addr: usize, len: usize, prot: i32) -> i32 {
    let r = raw_syscall(10, addr as i64, len as i64, prot as i64, 0, 0, 0);
    if r < 0 {
        set_errno(-r as i32);
        -1
    } else {
        0
    }
}

/// Map exactly at `addr` or fail (never replaces an existing mapping).
pub unsafe fn map_fixed_noreplace(addr: usize, len: usize, prot: i32) -> bool {
    let flags = libc::MAP_PRIVATE | libc::MAP_ANONYMOUS | MAP_FIXED_NOREPLACE as i32;
    let r = sys_mmap(addr, len, prot, flags, -1, 0);
    if r == MAP_FAILED {
        return false;
    }
    if r != addr {
        // kernels without MAP_FIXED_NOREPLACE treat it as a hint
        sys_munmap(r, len);
        return false;
    }
    true
}

// ------------------------------------------------------------------------------------------------
// the interposed symbols

#[no_mangle]
pub unsafe extern "C" fn mmap(addr: *mut libc::c_void, len: libc::size_t, prot: libc::c_int, flags: libc::c_int, fd: libc::c_int, off: libc::off_t) -> *mut libc::c_void {
    if !in_sut() {
        return sys_mmap(addr as usize, len, prot, flags, fd, off) as *mut libc::c_void;
    }
    maybe_pause(Kind::Mmap);
    MMAP_CALLS.fetch_add(1, SeqCst);
    // a placement search has at most one probe per page of its window (65 537); a million probes
    // in a row without any protection change or flush in between is a search that does not end.
    // The process cannot be unwound out of the library's loop from here, so it stops with a
    // marker the driver understands.
    if MMAP_RUN.fetch_add(1, SeqCst) > 1_000_000 {
        let msg = b"#runaway-placement-search\n";
        libc::write(2, msg.as_ptr() as *const libc::c_void, msg.len());
        libc::_exit(78);
    }
    let hint = addr as usize;
    let page = hint & !0xFFF;
    let race = RACE_MAP_IN.load(SeqCst);
    if race > 0 && hint != 0 && MODE.load(SeqCst) == MODE_PASS {
        RACE_MAP_IN.store(race - 1, SeqCst);
        if race == 1 {
            let r = sys_mmap(page, 4096, libc::PROT_READ | libc::PROT_WRITE, libc::MAP_PRIVATE | libc::MAP_ANONYMOUS | MAP_FIXED_NOREPLACE as i32, -1, 0);
            if r == page {
                *(page as *mut u64) = RACE_MAGIC;
                if let Ok(mut v) = RACED.try_lock() {
                    v.push(page as u64);
                }
            } else if r != MAP_FAILED {
                sys_munmap(r, 4096);
            }
        }
    }
    let failing = MMAP_FAIL_IN.load(SeqCst);
    if failing > 0 {
        MMAP_FAIL_IN.store(failing - 1, SeqCst);
    }
    let ret = match MODE.load(SeqCst) {
        MODE_PASS if failing == 1 => {
            set_errno(libc::ENOMEM);
            MAP_FAILED
        }
        MODE_PASS => sys_mmap(hint, len, prot, flags, fd, off),
        MODE_GRANT_ONLY => {
            if hint != 0 && page as u64 == GRANT_PAGE.load(SeqCst) {
                sys_mmap(page, len, prot, flags | MAP_FIXED_NOREPLACE as i32, fd, off)
            } else {
                set_errno(libc::ENOMEM);
                MAP_FAILED
            }
        }
        MODE_FAIL_ALL => {
            set_errno(libc::ENOMEM);
            MAP_FAILED
        }
        _ => {
            let free = FREE_PAGES.lock().map(|v| v.binary_search(&(page as u64)).is_ok()).unwrap_or(false);
            if hint != 0 && free {
                let r = sys_mmap(page, len, prot, flags | MAP_FIXED_NOREPLACE as i32, fd, off);
                if r != MAP_FAILED && r != page {
                    sys_munmap(r, len);
                    MAP_FAILED
                } else {
                    r
                }
            } else {
                match FALLBACK.load(SeqCst) {
                    FB_FAIL => {
                        set_errno(libc::ENOMEM);
                        MAP_FAILED
                    }
                    FB_NEAR => {
                        let cand = FREE_PAGES.lock().ok().and_then(|v| if v.is_empty() { None } else { Some(v[NEAR_INDEX.load(SeqCst) % v.len()]) });
                        match cand {
                            Some(p) => {
                                let r = sys_mmap(p as usize, len, prot, flags | MAP_FIXED_NOREPLACE as i32, fd, off);
                                if r != MAP_FAILED && r != p as usize {
                                    sys_munmap(r, len);
                                    sys_mmap(0, len, prot, flags, fd, off)
                                } else if r == MAP_FAILED {
                                    sys_mmap(0, len, prot, flags, fd, off)
                                } else {
                                    r
                                }
                            }
                            None => sys_mmap(0, len, prot, flags, fd, off),
                        }
                    }
                    _ => sys_mmap(0, len, prot, flags, fd, off),
                }
            }
        }
    };
    if ret == MAP_FAILED {
        MMAP_FAILS.fetch_add(1, SeqCst);
        if FAILED_LOGGED.fetch_add(1, SeqCst) < 32 {
            push(Kind::Mmap, hint as u64, len as u64, prot as u64, ret as u64, vec![]);
        }
    } else {
        push(Kind::Mmap, hint as u64, len as u64, prot as u64, ret as u64, vec![]);
    }
    ret as *mut libc::c_void
}

#[no_mangle]
pub unsafe extern "C" fn mmap64(addr: *mut libc::c_void, len: libc::size_t, prot: libc::c_int, flags: libc::c_int, fd: libc::c_int, off: libc::off_t) -> *mut libc::c_void {
    mmap(addr, len, prot, flags, fd, off)
}

#[no_mangle]
pub unsafe extern "C" fn munmap(addr: *mut libc::c_void, len: libc::size_t) -> libc::c_int {
    if !in_sut() {
        return sys_munmap(addr as usize, len);
    }
    maybe_pause(Kind::Munmap);
    let n = MUNMAP_FAIL_IN.load(SeqCst);
    if n > 0 {
        MUNMAP_FAIL_IN.store(n - 1, SeqCst);
        if n == 1 {
            if let Ok(mut v) = FAILED_UNMAPS.try_lock() {
                v.push((addr as u64, len as u64));
            }
            set_errno(libc::EINVAL);
            push(Kind::Munmap, addr as u64, len as u64, 0, -1i64 as u64, vec![]);
            return -1;
        }
    }
    let r = sys_munmap(addr as usize, len);
    push(Kind::Munmap, addr as u64, len as u64, 0, r as i64 as u64, vec![]);
    r
}

#[no_mangle]
pub unsafe extern "C" fn mprotect(addr: *mut libc::c_void, len: libc::size_t, prot: libc::c_int) -> libc::c_int {
    if !in_sut() {
        return sys_mprotect(addr as usize, len, prot);
    }
    maybe_pause(Kind::Mprotect);
    MMAP_RUN.store(0, SeqCst);
    let n = MPROTECT_CALLS.fetch_add(1, SeqCst) + 1;
    let fp = MPROTECT_FAIL_PAGE.load(SeqCst) as usize;
    let covers = fp != 0 && (addr as usize) <= fp && fp < (addr as usize).saturating_add(len.max(1));
    let wx = (prot & libc::PROT_WRITE) != 0 && (prot & libc::PROT_EXEC) != 0;
    let r = if MPROTECT_FAIL_AT.load(SeqCst) == n || covers {
        MPROTECT_FAILS.fetch_add(1, SeqCst);
        set_errno(libc::ENOMEM);
        -1
    } else if wx && DENY_WX.load(SeqCst) != 0 {
        // a W^X policy: writable+executable is refused, everything else passes
        MPROTECT_FAILS.fetch_add(1, SeqCst);
        set_errno(libc::EACCES);
        -1
    } else {
        sys_mprotect(addr as usize, len, prot)
    };
    if r == 0 && (prot & libc::PROT_EXEC) == 0 {
        if let Ok(mut v) = NOEXEC_CALLS.lock() {
            if v.len() < 64 {
                v.push((addr as u64, len as u64));
            }
        }
    }
    push(Kind::Mprotect, addr as u64, len as u64, prot as u64, r as i64 as u64, vec![]);
    r
}

/// glibc/libgcc's `__clear_cache` is a no-op on x86-64, so replacing it is behaviour-neutral;
/// it lets the harness see *that* and *when* the injector asks for instruction-cache
/// synchronisation, and what the range contained at that moment.
#[no_mangle]
pub unsafe extern "C" fn __clear_cache(start: *mut u8, end: *mut u8) {
    if !in_sut() {
        return;
    }
    maybe_pause(Kind::Flush);
    let s = start as usize;
    let e = end as usize;
    let n = e.saturating_sub(s).min(64);
    let bytes = if n > 0 && crate::maps::readable(s, n) { std::slice::from_raw_parts(start, n).to_vec() } else { vec![] };
    push(Kind::Flush, s as u64, e as u64, 0, 0, bytes);
    // one-shot hook: "the earliest moment at which another caller could meet the new code"
    let h = FLUSH_HOOK_ADDR.load(SeqCst) as usize;
    if h != 0 && h >= s && h < e {
        let hook = FLUSH_HOOK.with(|c| c.borrow_mut().take());
        if let Some(mut f) = hook {
            FLUSH_HOOK_ADDR.store(0, SeqCst);
            let depth = IN_SUT.with(|c| c.replace(0));
            f();
            IN_SUT.with(|c| c.set(depth));
        }
    }
}

pub static FLUSH_HOOK_ADDR: AtomicU64 = AtomicU64::new(0);
thread_local! {
    static FLUSH_HOOK: std::cell::RefCell<Option<Box<dyn FnMut()>>> = const { std::cell::RefCell::new(None) };
}
/// Run `f` (once, on this thread, outside the SUT section) when the library flushes a range that
/// contains `addr`.  `f` must not unwind.
pub fn set_flush_hook(addr: usize, f: Box<dyn FnMut()>) {
    FLUSH_HOOK.with(|c| *c.borrow_mut() = Some(f));
    FLUSH_HOOK_ADDR.store(addr as u64, SeqCst);
}
pub fn clear_flush_hook() {
    FLUSH_HOOK_ADDR.store(0, SeqCst);
    FLUSH_HOOK.with(|c| *c.borrow_mut() = None);
}
