#!/usr/bin/env python3
"""Thorough-tier engine: libFuzzer campaign over the pure encoders (harness/fuzz, target
`encoders`).  Builds the target against the current tree, runs `-seed=VERIF_SEED -runs=N` from a
fresh corpus directory and writes a partial result.  A crash is a violation; its artifact is the
replay file.   usage: fuzz_engine.py --property C15 --out partial.json   |   fuzz_engine.py replay <artifact>"""
import json, os, re, shutil, subprocess, sys, time

VERIF = os.environ.get("VERIF_DIR", os.path.dirname(os.path.dirname(os.path.abspath(__file__))))
FUZZ = os.path.join(VERIF, "harness", "fuzz")
SEED = int(os.environ.get("VERIF_SEED", "1") or 1)
TIER = os.environ.get("VERIF_TIER", "quick")


def build(env):
    lock = os.path.join(FUZZ, "Cargo.lock")
    if not os.path.exists(lock):
        shutil.copy(os.path.join(VERIF, "harness", "Cargo.lock"), lock)
    r = subprocess.run(["cargo", "+nightly", "fuzz", "build", "encoders"], cwd=FUZZ, env=env, stdout=subprocess.PIPE, stderr=subprocess.STDOUT, text=True)
    return r.returncode == 0, r.stdout[-3000:]


def exe():
    return os.path.join(FUZZ, "target", "x86_64-unknown-linux-gnu", "release", "encoders")


def main():
    env = dict(os.environ, CARGO_NET_OFFLINE="true", VERIF_DIR=VERIF)
    # the nightly/sanitizer build keeps its own target directory (harness/fuzz/target)
    env.pop("CARGO_TARGET_DIR", None)
    if len(sys.argv) > 2 and sys.argv[1] == "replay":
        ok, tail = build(env)
        if not ok:
            print(tail)
            return 2
        r = subprocess.run([exe(), sys.argv[2]], env=env, stdout=subprocess.PIPE, stderr=subprocess.STDOUT, text=True)
        viol = [l for l in r.stdout.splitlines() if l.startswith("FUZZ-VIOLATION")]
        if viol:
            print("replay:", viol[0][:1500])
            prop = re.search(r"\[(C\d+)/", viol[0])
            print(f"VIOLATION property={prop.group(1) if prop else 'C15'} replay={sys.argv[2]}")
            return 1
        print("replay: property holds on this input" if r.returncode == 0 else f"replay: target exited {r.returncode}: {r.stdout[-400:]}")
        return 0 if r.returncode == 0 else 2
    prop = sys.argv[sys.argv.index("--property") + 1]
    out = sys.argv[sys.argv.index("--out") + 1]
    t0 = time.time()
    part = {"property": prop, "engine": "fuzz-encoders", "rule": "libFuzzer (coverage-guided, -use_value_profile=1, -len_control=0, max_len 64) over byte strings decoded with arbitrary::Unstructured into (variant in {arm64-linux, arm64-macos, arm, amd64}, function, trampoline displacement incl. range edges, fake, mode); the proptest engines' decoder oracles run in-target; non-trivial = corpus entries kept by the fuzzer (inputs that reached new coverage / value-profile features), counted at the end of the campaign", "evaluations": 0, "distinct_nontrivial": 0, "classes": {}, "counters": {}, "samples": [], "violations": [], "known_hits": {}, "known_listed": [], "notes": [], "assumptions": ["libFuzzer's -seed/-runs pin a campaign only approximately; the saved crashing input is the reproducible unit"], "inconclusive": [], "exhaustive_parts": [], "seed": SEED, "tier": TIER}
    ok, tail = build(env)
    if not ok:
        part["inconclusive"].append("fuzz target does not build: " + tail[-800:])
    else:
        runs = int(float(os.environ.get("VERIF_FUZZ_RUNS", "3000000" if TIER == "thorough" else "150000")))
        corpus = os.path.join(VERIF, "work", f"fuzz-corpus-{prop}-{SEED}")
        shutil.rmtree(corpus, ignore_errors=True)
        os.makedirs(corpus)
        art = os.path.join(VERIF, "work", "replays", "")
        os.makedirs(art, exist_ok=True)
        r = subprocess.run([exe(), corpus, f"-artifact_prefix={art}{prop}-fuzz-", f"-seed={SEED}", f"-runs={runs}", "-use_value_profile=1", "-len_control=0", "-max_len=64", "-print_final_stats=1"], env=env, stdout=subprocess.PIPE, stderr=subprocess.STDOUT, text=True)
        txt = r.stdout
        m = re.search(r"stat::number_of_executed_units:\s*(\d+)", txt)
        part["evaluations"] = int(m.group(1)) if m else 0
        files = sorted(os.listdir(corpus))
        part["distinct_nontrivial"] = len(files)
        for f in files[:4]:
            part["samples"].append({"corpus_entry_hex": open(os.path.join(corpus, f), "rb").read().hex()})
        cov = re.findall(r"cov: (\d+) ft: (\d+)", txt)
        if cov:
            part["counters"] = {"final_cov_edges": int(cov[-1][0]), "final_features": int(cov[-1][1])}
        viol = [l for l in txt.splitlines() if l.startswith("FUZZ-VIOLATION")]
        if r.returncode != 0:
            unit = re.search(r"Test unit written to (\S+)", txt)
            msg = viol[0] if viol else "fuzz target crashed: " + txt[-600:]
            if viol:
                part["violations"].append({"signature": (re.search(r"\[([^\]]+)\]", msg) or [None, "fuzz"])[1], "message": msg[:2500], "case": {"FuzzArtifact": unit.group(1) if unit else None}, "replay": unit.group(1) if unit else None})
            else:
                part["inconclusive"].append(msg)
        shutil.rmtree(corpus, ignore_errors=True)
    part["wall_s"] = time.time() - t0
    os.makedirs(os.path.dirname(out), exist_ok=True)
    json.dump(part, open(out, "w"), indent=1)
    return 1 if part["violations"] else (2 if part["inconclusive"] else 0)


if __name__ == "__main__":
    sys.exit(main())
