//! Driver-side oracles over history observations.

use crate::driver::{signal_name, Exec};
use crate::hist::*;
use serde_json::{json, Value};
use std::collections::{BTreeMap, BTreeSet};
use vcommon::Recorder;

pub fn unpack(rec: &mut Recorder, c: &HistCase, ex: Exec) -> Result<Option<HistObs>, String> {
    let prop = rec.property.clone();
    if c.in_teardown && matches!(ex, Exec::Obs(_)) {
        rec.class("history-inside-tear-down-while-unwinding");
    }
    match ex {
        Exec::Timeout => {
            rec.count("watchdog", 1);
            if rec.counters.get("watchdog").copied().unwrap_or(0) > 3 {
                rec.inconclusive.push("worker watchdog expired repeatedly".into());
            }
            Ok(None)
        }
        Exec::Died { signal, code, phase, stderr_tail } => {
            rec.eval(|| json!({"case": c, "outcome": "worker died"}));
            let s = signal.map(signal_name).unwrap_or("exit");
            rec.fail(&format!("{prop}/native/died/{s}/{phase}"), format!("worker died ({s} {signal:?} code {code:?}) in phase '{phase}' while executing {c:?}; stderr: {stderr_tail}"))?;
            Ok(None)
        }
        Exec::Obs(v) => {
            if let Some(e) = v.get("harness_error") {
                rec.inconclusive.push(format!("harness error: {e}"));
                return Ok(None);
            }
            match serde_json::from_value::<HistObs>(v) {
                Ok(o) => {
                    if o.status == "discarded" {
                        rec.count("discarded", 1);
                        return Ok(None);
                    }
                    Ok(Some(o))
                }
                Err(e) => {
                    rec.inconclusive.push(format!("bad observation: {e}"));
                    Ok(None)
                }
            }
        }
    }
}

fn hex(b: &[u8]) -> String {
    b.iter().map(|x| format!("{x:02x}")).collect::<Vec<_>>().join("")
}

fn sample(c: &HistCase, o: &HistObs) -> Value {
    json!({
        "case": c,
        "targets": o.targets.iter().map(|t| format!("{}@{:#x}", t.name, t.addr)).collect::<Vec<_>>(),
        "lifetimes": o.lifetimes.iter().map(|l| json!({
            "exit": l.exit,
            "steps": l.steps.iter().map(|s| format!("{} t{} -> {}", s.kind, s.t, s.value.map(|v| v.to_string()).unwrap_or_else(|| format!("installs {}", s.expected_value)))).collect::<Vec<_>>(),
        })).collect::<Vec<_>>(),
    })
}

// ------------------------------------------------------------------------------------------------
// C02

pub fn judge_c02(rec: &mut Recorder, c: &HistCase, ex: Exec, _hello: &Value) -> Result<(), String> {
    let Some(o) = unpack(rec, c, ex)? else { return Ok(()) };
    rec.eval(|| sample(c, &o));
    let sig = |s: &str| format!("C02/native/{s}");
    let mut o = o;
    for li in 0..o.lifetimes.len() {
        if let Some((ti, bytes, orig)) = o.lifetimes[li].rewritten.clone() {
            // the harness rewrote this synthetic target before the lifetime: "as before the
            // injector existed" now refers to the new content
            o.targets[ti].pristine = bytes;
            o.targets[ti].orig = orig;
            rec.class("target-rewritten-between-lifetimes");
        }
        let l = &o.lifetimes[li];
        let mut stack: BTreeMap<usize, Vec<u64>> = BTreeMap::new();
        // call-count expectations pending in this lifetime: (target, position in its stack, n, count)
        let mut counted: Vec<(usize, usize, u64, u64)> = vec![];
        let mut kinds: BTreeSet<String> = BTreeSet::new();
        let mut installs = 0;
        for (si, s) in l.steps.iter().enumerate() {
            if s.kind == "squat" {
                continue;
            }
            if s.kind.starts_with("reseal") {
                if s.kind == "reseal/done" {
                    rec.class("owner-resealed-the-code-pages-while-faked");
                }
                continue;
            }
            let t = &o.targets[s.t];
            if s.kind.starts_with("install") {
                installs += 1;
                kinds.insert(s.kind.clone());
                if let Some(p) = &s.panicked {
                    return rec.fail(&sig("install-refused"), format!("lifetime {li} step {si}: legal installation {} on {} panicked: {p}; case {c:?}", s.kind, t.name));
                }
                stack.entry(s.t).or_default().push(s.expected_value);
                if let Some((_, n)) = s.times {
                    counted.push((s.t, stack[&s.t].len() - 1, n as u64, 0));
                }
            } else {
                let expect = stack.get(&s.t).and_then(|v| v.last().copied()).unwrap_or(t.orig);
                // is the installation in effect a counted one?
                let depth = stack.get(&s.t).map(|v| v.len()).unwrap_or(0);
                if let Some(c) = counted.iter_mut().find(|c| c.0 == s.t && c.1 + 1 == depth) {
                    let over = c.3 >= c.2;
                    c.3 += 1;
                    if over {
                        match &s.call_panic {
                            Some(p) if p.contains("more times than expected") => continue,
                            other => return rec.fail(&sig("over-called-fake-did-not-panic"), format!("lifetime {li} step {si}: call #{} of {} against times: {} gave {:?} / {other:?}; case {c:?}", c.3, t.name, c.2, s.value)),
                        }
                    }
                }
                if let Some(p) = &s.call_panic {
                    return rec.fail(&sig("call-panicked-while-alive"), format!("lifetime {li} step {si}: calling {} panicked: {p}; case {c:?}", t.name));
                }
                match s.value {
                    None => {
                        return rec.fail(&sig("entry-undecodable-while-alive"), format!("lifetime {li} step {si}: entry of {} does not lead anywhere known ({}) ; case {c:?}", t.name, s.decode_end));
                    }
                    Some(v) if v != expect => {
                        let depth = stack.get(&s.t).map(|v| v.len()).unwrap_or(0);
                        return rec.fail(&sig(if depth >= 2 { "latest-installation-not-in-effect" } else { "wrong-value-while-alive" }), format!("lifetime {li} step {si}: {} returned {v}, expected {expect} (installations on it so far: {:?}); case {c:?}", t.name, stack.get(&s.t)));
                    }
                    _ => {}
                }
            }
        }
        // an unmet call-count expectation legitimately panics at a normal scope exit; restoration
        // is demanded all the same (checked below)
        let unmet = counted.iter().any(|c| c.2 != c.3);
        if l.munmap_fault_hit {
            rec.class("a-munmap-of-the-scope-exit-failed");
        }
        if let Some(p) = &l.drop_panicked {
            // (an implementation may report a trampoline it could not release; restoration is
            // demanded all the same, below)
            if !(unmet && l.exit == "normal") && !l.munmap_fault_hit {
                return rec.fail(&sig("scope-exit-panicked"), format!("lifetime {li} ({}): {p}; case {c:?}", l.exit));
            }
            rec.class("exit/verification-panic-with-fakes-installed");
        }
        for (ti, bytes, val) in &l.post {
            let t = &o.targets[*ti];
            if bytes != &t.pristine {
                let n = stack.get(ti).map(|v| v.len()).unwrap_or(0);
                return rec.fail(&sig(if n >= 2 { "not-restored-after-repeated-install" } else { "not-restored" }), format!("after lifetime {li} ({} exit, {n} installation(s) on it) {} @ {:#x} is not byte-identical: {} != pristine {}; case {c:?}", l.exit, t.name, t.addr, hex(&bytes[..16]), hex(&t.pristine[..16])));
            }
            if *val != Some(t.orig) {
                return rec.fail(&sig("original-behaviour-not-back"), format!("after lifetime {li} {} returns {val:?}, originally {}; case {c:?}", t.name, t.orig));
            }
        }
        let repeated = stack.values().any(|v| v.len() >= 2);
        let wide = stack.len() >= 3 && kinds.len() >= 2;
        let unwound = l.exit == "unwind" && installs >= 1;
        rec.class(&format!("lifetime/{}{}{}{}", l.exit, if repeated { "/repeated-target" } else { "" }, if wide { "/>=3-targets" } else { "" }, if installs == 0 { "/no-install" } else { "" }));
        for k in &kinds {
            rec.class(k);
        }
        let verdict_exit = l.drop_panicked.is_some() && installs >= 2;
        if repeated || wide || unwound || verdict_exit {
            rec.nontrivial(&(li, &c.lifetimes[li % c.lifetimes.len()], &c.synth));
        }
    }
    if o.agg_not_pristine > 0 {
        return rec.fail(&sig("not-restored"), format!("{} target(s) not pristine after a lifetime in the repeated part; case {c:?}", o.agg_not_pristine));
    }
    rec.count("lifetimes", o.total_lifetimes);
    rec.count("installs", o.total_installs);
    Ok(())
}

// ------------------------------------------------------------------------------------------------
// C12

pub fn judge_c12(rec: &mut Recorder, c: &HistCase, ex: Exec, _hello: &Value) -> Result<(), String> {
    let Some(o) = unpack(rec, c, ex)? else { return Ok(()) };
    rec.eval(|| json!({"case": c, "cycles": o.total_lifetimes, "installs": o.total_installs, "mappings_created": o.agg_mmaps_kept, "unmaps": o.agg_munmaps}));
    let sig = |s: &str| format!("C12/native/{s}");
    // per-lifetime detail: every mapping kept by an install is released exactly once at exit
    for (li, l) in o.lifetimes.iter().enumerate() {
        let mut live: BTreeMap<u64, u64> = BTreeMap::new();
        let mut ever: BTreeSet<u64> = BTreeSet::new();
        if let Some(e) = l.new_log.iter().find(|e| e.k == 2) {
            return rec.fail(&sig("unmap-at-creation"), format!("lifetime {li}: munmap({:#x},{}) while the injector was being created: every trampoline of earlier lifetimes was already released at their exit, so this address is not the injector's to unmap; case {c:?}", e.a0, e.a1));
        }
        for s in &l.steps {
            // replay this install's log: mappings obtained, rejected ones given back
            for e in &s.log {
                match e.k {
                    1 if e.ret != u64::MAX => {
                        live.insert(e.ret, e.a1);
                        ever.insert(e.ret);
                    }
                    2 => match crate::acct::release(&mut live, e.a0, e.a1) {
                        crate::acct::Release::Whole { .. } => {}
                        other => {
                            return rec.fail(&sig("unmap-of-foreign-or-freed-address"), format!("lifetime {li}: munmap({:#x},{}) during an installation does not release whole live mappings of the injector ({other:?}); case {c:?}", e.a0, e.a1));
                        }
                    },
                    _ => {}
                }
            }
            // (how many mappings an installation keeps is the implementation's business: a pooled
            // design may keep none; what is demanded is that whatever is kept is released exactly
            // once at scope exit and that nothing else is ever unmapped)
        }
        let installs = l.steps.iter().filter(|s| s.kind.starts_with("install") && s.panicked.is_none()).count();
        // live executable anonymous mappings during the lifetime == live installs: checked at
        // exit through the log (every live one must be unmapped now, exactly once)
        for e in &l.drop_log {
            if e.k == 2 {
                // (neighbouring trampolines may be released by one call)
                match crate::acct::release(&mut live, e.a0, e.a1) {
                    crate::acct::Release::Foreign => {
                        let what = if ever.contains(&e.a0) { "freed-twice" } else { "unmap-of-foreign-or-freed-address" };
                        return rec.fail(&sig(what), format!("lifetime {li} exit: munmap({:#x},{}) of an address that is not a live trampoline; case {c:?}", e.a0, e.a1));
                    }
                    crate::acct::Release::Partial => {
                        return rec.fail(&sig("unmap-length-mismatch"), format!("lifetime {li} exit: munmap({:#x},{}) covers a live trampoline mapping only in part; case {c:?}", e.a0, e.a1));
                    }
                    crate::acct::Release::Whole { beyond, .. } => {
                        if e.a1 == 0 || e.ret != 0 {
                            return rec.fail(&sig("unmap-length-mismatch"), format!("lifetime {li} exit: munmap({:#x},{}) returned {}; case {c:?}", e.a0, e.a1, e.ret as i64));
                        }
                        if beyond {
                            rec.class("release-also-covers-pages-that-are-not-the-injector's");
                        }
                    }
                }
            }
        }
        if !live.is_empty() {
            return rec.fail(&sig("leaked"), format!("lifetime {li} ({} exit, {installs} installs): {} trampoline mapping(s) never released: {:x?}; case {c:?}", l.exit, live.len(), live.keys().collect::<Vec<_>>()));
        }
        // and the kernel agrees: executable anonymous pages are what they were before
        // a page somebody else mapped a moment before the injector asked for it is not the
        // injector's: it must survive the lifetime with its content
        for (p, mapped, intact) in &l.raced {
            rec.class("somebody-else-mapped-the-hinted-page-first");
            if !*mapped || !*intact {
                return rec.fail(&sig(if *mapped { "foreign-mapping-overwritten" } else { "foreign-mapping-unmapped" }), format!("lifetime {li}: page {p:#x} was mapped by another part of the program just before the injector's mmap with that hint reached the kernel; after the lifetime it is {}: the injector {} memory it did not allocate; case {c:?}", if *mapped { "still mapped but its content has changed" } else { "gone" }, if *mapped { "wrote into" } else { "unmapped" }));
            }
        }
        // (pages on which the harness has mapped code of its own - on addresses the injector had
        // released - are somebody else's: they must all still be there, and they are not counted)
        let mut squat: BTreeSet<u64> = l.squat_pages.iter().copied().collect();
        for s in &l.steps {
            squat.extend(s.squatted.iter().copied());
        }
        if !squat.is_empty() {
            rec.class("foreign-code-on-addresses-the-injector-released");
        }
        let gone: Vec<&u64> = squat.iter().filter(|p| !l.anon_exec.contains(p)).collect();
        if !gone.is_empty() {
            return rec.fail(&sig("foreign-mapping-unmapped"), format!("after lifetime {li}: executable pages {gone:x?}, mapped by somebody else on addresses the injector had released earlier, are gone: the injector unmapped memory it did not allocate; case {c:?}"));
        }
        let anon_now: Vec<u64> = l.anon_exec.iter().copied().filter(|p| !squat.contains(p)).collect();
        if anon_now != o.anon_exec_before {
            let extra: Vec<_> = anon_now.iter().filter(|p| !o.anon_exec_before.contains(p)).collect();
            let missing: Vec<_> = o.anon_exec_before.iter().filter(|p| !anon_now.contains(p)).collect();
            return rec.fail(&sig(if !extra.is_empty() { "leaked" } else { "foreign-mapping-unmapped" }), format!("after lifetime {li}: executable anonymous pages differ from before the first injector: extra {extra:x?} missing {missing:x?}; case {c:?}"));
        }
        let mut per_target: BTreeMap<usize, usize> = BTreeMap::new();
        let mut kinds = BTreeSet::new();
        for s in l.steps.iter().filter(|s| s.kind.starts_with("install")) {
            *per_target.entry(s.t).or_default() += 1;
            kinds.insert(s.kind.clone());
        }
        rec.class(&format!("cycle/installs={}", installs.min(9)));
        if installs >= 2 && (per_target.values().any(|n| *n >= 2) || kinds.len() >= 2) {
            rec.nontrivial(&(li, &c.lifetimes[li % c.lifetimes.len()]));
        }
    }
    // aggregate over the repeated cycles
    if o.agg_bad_unmaps != 0 {
        return rec.fail(&sig("leaked-or-double-free-in-repeated-cycles"), format!("{} bad release events over {} cycles ({} mappings created, {} unmaps); case {c:?}", o.agg_bad_unmaps, o.total_lifetimes, o.agg_mmaps_kept, o.agg_munmaps));
    }
    if o.anon_exec_after != o.anon_exec_before {
        return rec.fail(&sig("leaked"), format!("executable anonymous pages after {} cycles differ from before: {} -> {} pages; case {c:?}", o.total_lifetimes, o.anon_exec_before.len(), o.anon_exec_after.len()));
    }
    rec.count("cycles", o.total_lifetimes);
    rec.count("installs", o.total_installs);
    rec.count("mappings_created_and_released", o.agg_mmaps_kept);
    Ok(())
}

// ------------------------------------------------------------------------------------------------
// C17

fn flush_covers(log: &[crate::place::LogEv], addr: u64, val: u8) -> Result<(), String> {
    // the *last* flush covering addr must have seen the final content
    let mut covering = log.iter().filter(|e| e.k == 4 && addr >= e.a0 && addr < e.a1);
    let last = covering.clone().last();
    match last {
        None => Err(format!("byte {addr:#x} was modified but no flush range in between contains it (flushes: {:x?})", log.iter().filter(|e| e.k == 4).map(|e| (e.a0, e.a1)).collect::<Vec<_>>())),
        Some(_) => {
            if covering.any(|e| e.bytes.get((addr - e.a0) as usize) == Some(&val)) {
                Ok(())
            } else {
                Err(format!("byte {addr:#x} was flushed before it received its final value {val:#04x} (a write followed the flush)"))
            }
        }
    }
}

pub fn judge_c17(rec: &mut Recorder, c: &HistCase, ex: Exec, _hello: &Value) -> Result<(), String> {
    let Some(o) = unpack(rec, c, ex)? else { return Ok(()) };
    rec.eval(|| json!({"case": c, "flushes_first_lifetime": o.lifetimes.first().map(|l| l.steps.iter().map(|s| s.log.iter().filter(|e| e.k == 4).map(|e| format!("[{:#x},{:#x})", e.a0, e.a1)).collect::<Vec<_>>()).collect::<Vec<_>>())}));
    let sig = |s: &str| format!("C17/native/{s}");
    for (li, l) in o.lifetimes.iter().enumerate() {
        // content of every target as of the previous observation point
        let mut cur: BTreeMap<usize, Vec<u8>> = BTreeMap::new();
        for s in &l.steps {
            if !s.kind.starts_with("install") {
                continue;
            }
            // (an installation that was refused half-way is judged like any other: whatever code
            // it wrote - typically a trampoline it then left behind - was a code modification)
            let refused = s.panicked.is_some();
            let t = &o.targets[s.t];
            let mut changed = 0;
            for i in 0..s.after.len() {
                if s.after[i] != s.before[i] {
                    changed += 1;
                    if let Err(m) = flush_covers(&s.log, t.addr + i as u64, s.after[i]) {
                        return rec.fail(&sig("entry-patch-not-flushed"), format!("lifetime {li} {} on {}: {m}; case {c:?}", s.kind, t.name));
                    }
                }
            }
            for (addr, bytes) in &s.tramps {
                for (i, b) in bytes.iter().enumerate() {
                    if *b != 0 {
                        changed += 1;
                        if let Err(m) = flush_covers(&s.log, addr + i as u64, *b) {
                            return rec.fail(&sig(if refused { "trampoline-not-flushed/installation-refused-after-writing-it" } else { "trampoline-not-flushed" }), format!("lifetime {li} {} on {}{}: {m}; case {c:?}", s.kind, t.name, if refused { format!(" (the installation then panicked: {:?})", s.panicked) } else { String::new() }));
                        }
                    }
                }
            }
            if !refused || s.after != s.before {
                cur.insert(s.t, s.after.clone());
            }
            if changed > 0 {
                let straddle = (t.addr & 0xFFF) > 0xFFB;
                rec.class(&format!("{}{}{}", s.kind, if straddle { "/straddle" } else { "" }, if refused { "/refused-after-writing-code" } else { "" }));
                rec.nontrivial(&(li, s.t, &s.kind, t.addr, s.tramps.first().map(|x| x.0)));
            }
        }
        // a block whose release failed is still executable memory: whatever scope exit wrote into
        // it after the installation is a code modification like any other
        for (addr, now) in &l.unreleased {
            // (compared with the block's content right before scope exit: later installations may
            // legitimately have written - and flushed - more into a block that several of them share)
            if let Some((_, was)) = l.held_before_exit.iter().find(|t| t.0 == *addr) {
                rec.class("trampoline-that-could-not-be-released");
                for i in 0..now.len().min(was.len()) {
                    if now[i] != was[i] {
                        if let Err(m) = flush_covers(&l.drop_log, addr + i as u64, now[i]) {
                            return rec.fail(&sig("unreleased-trampoline-rewritten-without-flush"), format!("lifetime {li} ({} exit): the release of the trampoline at {addr:#x} failed, the block stays mapped and executable, and scope exit rewrote it ({:02x?} -> {:02x?}): {m}; case {c:?}", l.exit, &was[..16.min(was.len())], &now[..16.min(now.len())]));
                        }
                    }
                }
            }
        }
        // restoration at scope exit
        for (ti, bytes, _) in &l.post {
            if let Some(before) = cur.get(ti) {
                let t = &o.targets[*ti];
                let mut changed = 0;
                for i in 0..bytes.len() {
                    if bytes[i] != before[i] {
                        changed += 1;
                        if let Err(m) = flush_covers(&l.drop_log, t.addr + i as u64, bytes[i]) {
                            return rec.fail(&sig("restoration-not-flushed"), format!("lifetime {li} ({} exit) restoring {}: {m}; case {c:?}", l.exit, t.name));
                        }
                    }
                }
                if changed > 0 {
                    rec.class(&format!("restore/{}", l.exit));
                    rec.nontrivial(&("restore", li, ti, &l.exit, t.addr));
                }
            }
        }
    }
    Ok(())
}

// ------------------------------------------------------------------------------------------------
// C03

pub fn judge_c03(rec: &mut Recorder, c: &HistCase, ex: Exec, _hello: &Value) -> Result<(), String> {
    let Some(o) = unpack(rec, c, ex)? else { return Ok(()) };
    rec.eval(|| {
        let mut s = sample(c, &o);
        s["snapshot_bytes"] = json!(o.lifetimes.first().and_then(|l| l.diff_after_drop.as_ref()).map(|d| d.snapshot_bytes));
        s
    });
    let sig = |s: &str| format!("C03/native/{s}");
    let by = crate::targets::bystanders();
    let by_expect: BTreeMap<String, u64> = by.iter().map(|(n, _, v, _)| (n.to_string(), *v)).collect();
    let check_by = |rec: &mut Recorder, vals: &[(String, u64)], at: &str| -> Result<(), String> {
        for (n, v) in vals {
            if by_expect.get(n) != Some(v) {
                return rec.fail(&sig("bystander-behaviour-changed"), format!("{at}: function {n}, never named in an installation, returned {v} instead of {:?}; case {c:?}", by_expect.get(n)));
            }
        }
        Ok(())
    };
    let arena_pages: BTreeSet<u64> = o.arena_pages.iter().copied().collect();
    let mut named: BTreeSet<usize> = BTreeSet::new();
    let mut own_pages: BTreeSet<u64> = BTreeSet::new(); // trampoline pages currently live
    // trampolines of installations that panicked after mapping them: the injector's own pages,
    // whose fate is not this property's business
    let mut stranded: BTreeSet<u64> = BTreeSet::new();
    for (li, l) in o.lifetimes.iter().enumerate() {
        let mut squat: BTreeSet<u64> = l.squat_pages.iter().copied().collect();
        if !squat.is_empty() {
            rec.class("foreign-code-on-released-trampoline-addresses");
        }
        if let Some((a, len)) = l.exec_removed.first() {
            return rec.fail(&sig("execute-permission-removed-from-foreign-code"), format!("lifetime {li}: the injector called mprotect({a:#x}, {len}, <no PROT_EXEC>) on memory that is not one of its trampolines: until it gives the permission back, every function on those pages - named or not - cannot run; case {c:?}"));
        }
        let wx_denied = c.lifetimes.get(li % c.lifetimes.len().max(1)).map(|x| x.deny_wx).unwrap_or(false);
        if wx_denied {
            rec.class("lifetime-under-a-w^x-policy");
        }
        for (si, s) in l.steps.iter().enumerate() {
            if s.kind == "squat" && !s.squatted.is_empty() {
                rec.class("foreign-code-mapped-on-addresses-released-during-the-lifetime");
                for p in &s.squatted {
                    own_pages.remove(p);
                    stranded.remove(p);
                    squat.insert(*p);
                }
            }
            if s.kind.starts_with("install") {
                named.insert(s.t);
                for t in &s.tramps {
                    let page = t.0 & !0xFFF;
                    if s.panicked.is_some() {
                        stranded.insert(page);
                    }
                    if squat.contains(&page) || arena_pages.contains(&page) {
                        return rec.fail(&sig("trampoline-mapped-over-foreign-code"), format!("lifetime {li} step {si} ({}): the injector's trampoline mapping {:#x} lies on a page that held somebody else's code (it had released that address at the end of an earlier lifetime); case {c:?}", s.kind, t.0));
                    }
                    own_pages.insert(page);
                }
            }
            if let Some(d) = &s.diff {
                let at = format!("lifetime {li} step {si} ({})", s.kind);
                for (a, old, new) in &d.changed {
                    let ok = named.iter().any(|ti| *a >= o.targets[*ti].addr && *a < o.targets[*ti].addr + 16) || own_pages.contains(&(a & !0xFFF));
                    if !ok {
                        return rec.fail(&sig("byte-outside-designated-entries-changed"), format!("{at}: byte at {a:#x} changed {old:#04x}->{new:#04x}; it is neither within the 16-byte entry slot of a named target ({:x?}) nor in a trampoline page; {} bytes changed in total; case {c:?}", named.iter().map(|ti| o.targets[*ti].addr).collect::<Vec<_>>(), d.changed_total));
                    }
                }
                for p in &d.appeared {
                    if !own_pages.contains(p) && !squat.contains(p) {
                        return rec.fail(&sig("unexpected-executable-page"), format!("{at}: executable page {p:#x} appeared that is not a mapping the injector was seen to create ({own_pages:x?}); case {c:?}"));
                    }
                }
                for p in &d.disappeared {
                    if !own_pages.contains(p) {
                        return rec.fail(&sig("foreign-executable-page-vanished"), format!("{at}: executable page {p:#x} vanished; it was never a trampoline; case {c:?}"));
                    }
                }
                check_by(rec, &s.bystanders, &at)?;
            }
        }
        if let Some(d) = &l.diff_after_drop {
            let at = format!("lifetime {li} exit ({})", l.exit);
            for (a, old, new) in &d.changed {
                let ok = named.iter().any(|ti| *a >= o.targets[*ti].addr && *a < o.targets[*ti].addr + 16);
                if !ok {
                    return rec.fail(&sig("byte-outside-designated-entries-changed"), format!("{at}: byte at {a:#x} changed {old:#04x}->{new:#04x} during restoration, outside every named target's entry slot; case {c:?}"));
                }
            }
            for p in &d.disappeared {
                if !own_pages.contains(p) {
                    return rec.fail(&sig("foreign-executable-page-vanished"), format!("{at}: executable page {p:#x} vanished; it was never a trampoline; case {c:?}"));
                }
            }
            for p in d.appeared.iter().filter(|p| !stranded.contains(p)) {
                return rec.fail(&sig("unexpected-executable-page"), format!("{at}: executable page {p:#x} appeared during scope exit; case {c:?}"));
            }
            check_by(rec, &l.bystanders, &at)?;
        }
        if let Some(d) = &l.diff_vs_first {
            if d.changed_total != 0 || d.appeared.iter().any(|p| !squat.contains(p) && !stranded.contains(p)) || d.disappeared.iter().any(|p| !arena_pages.contains(p)) {
                return rec.fail(&sig("executable-memory-differs-after-lifetime"), format!("after lifetime {li} executable memory differs from the snapshot before the first injector: {} bytes changed (first {:x?}), appeared {:x?}, disappeared {:x?}; case {c:?}", d.changed_total, d.changed.first(), d.appeared, d.disappeared));
            }
        }
        own_pages.clear();
        // non-trivial: an install whose target has live neighbours at +/-16 (all synthetic
        // targets do) or sits in the last slot of a page
        for s in l.steps.iter().filter(|s| s.kind.starts_with("install")) {
            let t = &o.targets[s.t];
            rec.class(&format!("install-on/{}{}", if t.synthetic { "synthetic-packed" } else { t.name.as_str() }, if t.last_slot { "/last-slot-of-page" } else { "" }));
            if t.synthetic || t.name.starts_with("t_gen") || t.name.starts_with("libc") {
                rec.nontrivial(&(li, s.t, &s.kind, t.addr));
            }
        }
    }
    rec.count("snapshots_compared", o.lifetimes.iter().map(|l| l.steps.len() as u64 + 2).sum());
    Ok(())
}
