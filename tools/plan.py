"""Property -> engines table used by /verif/check.  Each engine is one process that writes a
partial result (JSON) which check merges into evidence/<ID>.json."""

VSIM = "{BIN}/vsim"
VNATIVE = "{BIN}/vnative"

PLAN = {
    "C15": {
        "packages": ["vsim"],
        "engines": [
            {"name": "s1-arm64", "argv": [VSIM, "arm64", "--property", "C15", "--modes", "fn,bool"]},
        ],
    },
    "C16": {
        "packages": ["vsim"],
        "engines": [
            {"name": "s1-arm", "argv": [VSIM, "arm", "--property", "C16", "--modes", "fn,bool"]},
        ],
    },
}

ENGINES = [
    {"name": "vsim (S1/S2)", "path": "/verif/harness/vsim", "serves_properties": ["C01", "C10", "C11", "C13", "C15", "C16", "C17", "C02"],
     "kind_free_text": "the repository's unmodified arch-specific sources compiled on the host (build.rs copy, 3 asserted textual cfg rewrites) against simulated memory; proptest generators + exhaustive sub-sweeps; oracles = independent A64/A32/T32/x86-64 decoders"},
]

NOT_APPLICABLE = {}

META = {
    "C15": {
        "level": "exploration",
        "design_ref": "DESIGN.md §4 C15, §2.2",
        "technique": "property-based testing: proptest-generated and exhaustively swept (func, trampoline, fake) tuples run through the real AArch64 encoder; oracle = independent A64 decoder with symbolic registers",
        "text": "The real patch_arm64.rs / arm64_codegenerator.rs (Linux and macOS cfg variants) are executed on the host for ~7*10^5 (quick) to >2*10^7 (thorough) generated cases plus exhaustive sub-sweeps (every 16-bit chunk of the fake address in every position; every word displacement within 80 words of the +/-128 MiB edges; ADRP page differences), and every byte they emit is decoded by an independent A64 decoder that must arrive at exactly the trampoline and then exactly the fake (or x0=value; ret), writing only x9..x17. Sampling, not proof: absence of a counterexample in the explored set.",
        "note": "Trusts: rustc; the three textual rewrites in vsim/build.rs; my A64 decoder (cross-checked against llvm-mc in `vsim selftest`); the 7-item shim of common.rs. Code is judged from emitted bytes, never executed on AArch64; dsb/isb barriers are not visible.",
    },
    "C16": {
        "level": "exploration",
        "design_ref": "DESIGN.md §4 C16, §2.2",
        "technique": "property-based testing: proptest-generated (entry, fake) pairs in the three entry classes through the real ARM patcher; oracle = independent A32/T32 decoder with Align(PC,4) literal addressing + AAPCS32 register-discipline predicate",
        "text": "The real patch_arm.rs is executed on the host for 3*10^5 (quick) to 3*10^7 (thorough) generated cases over all 32-bit targets/fakes in the three entry classes; the 12 written bytes are decoded by an independent A32/T32 decoder (literal load must read the word holding the fake inside the written range, then BX; guard must describe exactly the overwritten range; forced-boolean literals are resolved back to the host-compiled return_true/false and executed). The register-discipline part has two KNOWN findings (r7 in Thumb, r9 in ARM state), excluded by exact signature so the rest of the statement is still searched.",
        "note": "Trusts: rustc; vsim/build.rs rewrites; my A32/T32 decoder (cross-checked against llvm-mc); pointer truncation `as u32` on a 64-bit host is faithful only for addresses < 2^32, which is what is generated. Never executed on ARM hardware.",
    },
}
