//! Async cases (C14): a family of async functions (free functions and methods, by-value and
//! by-reference parameters, unit / scalar / heap / large by-memory outputs, siblings with the
//! same output type) driven by a hand-written single-poll executor.  Every original bumps a
//! side-effect counter and awaits a yield-once future, so an unfaked call needs two polls.

use crate::driver::{signal_name, Exec};
use crate::interpose as ip;
use injectorpp::interface::injector::*;
use proptest::prelude::*;
use serde::{Deserialize, Serialize};
use serde_json::{json, Value};
use std::future::Future;
use std::pin::Pin;
use std::sync::atomic::{AtomicU64, Ordering::SeqCst};
use std::task::{Context, Poll, RawWaker, RawWakerVTable, Waker};
use vcommon::Recorder;

pub const N_FNS: usize = 11;
static ORIG_RUNS: [AtomicU64; N_FNS] = [const { AtomicU64::new(0) }; N_FNS];
static EVALS: [AtomicU64; N_FNS] = [const { AtomicU64::new(0) }; N_FNS];
static VAL: [AtomicU64; N_FNS] = [const { AtomicU64::new(0) }; N_FNS];
/// != 0: every fake's value expression takes this many microseconds (a value that is computed,
/// read from a file, ...), so that awaits on different executor threads overlap inside it
static SLOW_US: AtomicU64 = AtomicU64::new(0);
fn value_takes_a_while() {
    let d = SLOW_US.load(SeqCst);
    if d > 0 {
        let t = std::time::Instant::now();
        while t.elapsed() < std::time::Duration::from_micros(d) {
            std::hint::spin_loop();
        }
    }
}

struct YieldOnce(bool);
impl Future for YieldOnce {
    type Output = ();
    fn poll(mut self: Pin<&mut Self>, _cx: &mut Context<'_>) -> Poll<()> {
        if self.0 {
            Poll::Ready(())
        } else {
            self.0 = true;
            Poll::Pending
        }
    }
}

fn noop_waker() -> Waker {
    fn clone(_: *const ()) -> RawWaker {
        RawWaker::new(std::ptr::null(), &VT)
    }
    fn noop(_: *const ()) {}
    static VT: RawWakerVTable = RawWakerVTable::new(clone, noop, noop, noop);
    unsafe { Waker::from_raw(RawWaker::new(std::ptr::null(), &VT)) }
}

/// Drives a future to completion, counting polls.
pub fn run<F: Future>(fut: F) -> (F::Output, u32) {
    let mut fut = std::pin::pin!(fut);
    let w = noop_waker();
    let mut cx = Context::from_waker(&w);
    let mut polls = 0;
    loop {
        polls += 1;
        if let Poll::Ready(v) = fut.as_mut().poll(&mut cx) {
            return (v, polls);
        }
        if polls > 16 {
            panic!("future did not complete in 16 polls");
        }
    }
}

#[derive(Debug, Clone, PartialEq)]
pub struct Big264 {
    pub head: u64,
    pub body: [u64; 31],
    pub tail: u64,
}

pub struct Svc {
    pub k: u64,
}

// ---- the family (index in comments) ---------------------------------------------------------
pub async fn a_unit(x: u32) { // 0
    ORIG_RUNS[0].fetch_add(1, SeqCst);
    YieldOnce(false).await;
    std::hint::black_box(x);
}
pub async fn a_u32(x: u32) -> u32 { // 1
    ORIG_RUNS[1].fetch_add(1, SeqCst);
    YieldOnce(false).await;
    x.wrapping_add(1)
}
pub async fn a_u32_sibling(x: u32) -> u32 { // 2 (same output type as 1)
    ORIG_RUNS[2].fetch_add(1, SeqCst);
    YieldOnce(false).await;
    x.wrapping_add(2)
}
pub async fn a_u64_ref(r: &u64) -> u64 { // 3
    ORIG_RUNS[3].fetch_add(1, SeqCst);
    YieldOnce(false).await;
    *r + 3
}
pub async fn a_bool(b: bool) -> bool { // 4
    ORIG_RUNS[4].fetch_add(1, SeqCst);
    YieldOnce(false).await;
    !b
}
pub async fn a_string(s: &str) -> String { // 5
    ORIG_RUNS[5].fetch_add(1, SeqCst);
    YieldOnce(false).await;
    format!("orig:{s}")
}
pub async fn a_string_sibling(n: u64) -> String { // 6 (same output type as 5)
    ORIG_RUNS[6].fetch_add(1, SeqCst);
    YieldOnce(false).await;
    format!("sib:{n}")
}
pub async fn a_vec(n: usize) -> Vec<u8> { // 7
    ORIG_RUNS[7].fetch_add(1, SeqCst);
    YieldOnce(false).await;
    vec![7u8; n % 5]
}
pub async fn a_tuple(n: u64) -> (u64, String) { // 8
    ORIG_RUNS[8].fetch_add(1, SeqCst);
    YieldOnce(false).await;
    (n, format!("t{n}"))
}
pub async fn a_big(n: u64) -> Big264 { // 9
    ORIG_RUNS[9].fetch_add(1, SeqCst);
    YieldOnce(false).await;
    Big264 { head: n, body: [n; 31], tail: !n }
}
impl Svc {
    pub async fn m_u32(&self, x: u32) -> u32 { // 10 (method, same output type as 1 and 2)
        ORIG_RUNS[10].fetch_add(1, SeqCst);
        YieldOnce(false).await;
        x.wrapping_add(self.k as u32)
    }
}

pub fn orig_repr(i: usize, arg: u64) -> String {
    match i {
        0 => "()".into(),
        1 => format!("{:?}", (arg as u32).wrapping_add(1)),
        2 => format!("{:?}", (arg as u32).wrapping_add(2)),
        3 => format!("{:?}", arg + 3),
        4 => format!("{:?}", arg & 1 == 0),
        5 => format!("{:?}", format!("orig:s{arg}")),
        6 => format!("{:?}", format!("sib:{arg}")),
        7 => format!("{:?}", vec![7u8; arg as usize % 5]),
        8 => format!("{:?}", (arg, format!("t{arg}"))),
        9 => format!("{:?}", Big264 { head: arg, body: [arg; 31], tail: !arg }),
        _ => format!("{:?}", (arg as u32).wrapping_add(40)),
    }
}

/// what the fake installed by site `site` (0/1) yields when VAL[i] == v
pub fn fake_repr(i: usize, site: u8, v: u64) -> String {
    let v = v + site as u64 * 1_000_000;
    match i {
        0 => "()".into(),
        1 | 2 | 10 => format!("{:?}", v as u32),
        3 => format!("{:?}", v),
        4 => format!("{:?}", v & 1 == 1),
        5 | 6 => format!("{:?}", format!("fake-{v}")),
        7 => format!("{:?}", vec![(v & 0xFF) as u8; 3]),
        8 => format!("{:?}", (v, format!("f{v}"))),
        _ => format!("{:?}", Big264 { head: v, body: [v ^ 0x55; 31], tail: v + 1 }),
    }
}

/// address of the poll function of async fn number `i`
fn poll_addr_i(i: usize) -> usize {
    let r0 = 0u64;
    let s = Svc { k: 40 };
    match i {
        0 => poll_addr(&a_unit(0)),
        1 => poll_addr(&a_u32(0)),
        2 => poll_addr(&a_u32_sibling(0)),
        3 => poll_addr(&a_u64_ref(&r0)),
        4 => poll_addr(&a_bool(false)),
        5 => poll_addr(&a_string("")),
        6 => poll_addr(&a_string_sibling(0)),
        7 => poll_addr(&a_vec(0)),
        8 => poll_addr(&a_tuple(0)),
        9 => poll_addr(&a_big(0)),
        _ => poll_addr(&s.m_u32(0)),
    }
}

fn await_fn(i: usize, arg: u64) -> (String, u32) {
    match i {
        0 => {
            let (v, p) = run(a_unit(arg as u32));
            (format!("{v:?}"), p)
        }
        1 => {
            let (v, p) = run(a_u32(arg as u32));
            (format!("{v:?}"), p)
        }
        2 => {
            let (v, p) = run(a_u32_sibling(arg as u32));
            (format!("{v:?}"), p)
        }
        3 => {
            let (v, p) = run(a_u64_ref(&arg));
            (format!("{v:?}"), p)
        }
        4 => {
            let (v, p) = run(a_bool(arg & 1 == 1));
            (format!("{v:?}"), p)
        }
        5 => {
            let s = format!("s{arg}");
            let (v, p) = run(a_string(&s));
            (format!("{v:?}"), p)
        }
        6 => {
            let (v, p) = run(a_string_sibling(arg));
            (format!("{v:?}"), p)
        }
        7 => {
            let (v, p) = run(a_vec(arg as usize));
            (format!("{v:?}"), p)
        }
        8 => {
            let (v, p) = run(a_tuple(arg));
            (format!("{v:?}"), p)
        }
        9 => {
            let (v, p) = run(a_big(arg));
            (format!("{v:?}"), p)
        }
        _ => {
            let s = Svc { k: 40 };
            let (v, p) = run(s.m_u32(arg as u32));
            (format!("{v:?}"), p)
        }
    }
}

macro_rules! ret {
    ($i:expr, $site:expr, $ty:ty, $mk:expr) => {
        injectorpp::async_return!(
            {
                EVALS[$i].fetch_add(1, SeqCst);
                value_takes_a_while();
                let v = VAL[$i].load(SeqCst) + $site * 1_000_000;
                let f: fn(u64) -> $ty = $mk;
                f(v)
            },
            $ty
        )
    };
}

fn install(inj: &mut InjectorPP, i: usize, site: u8) {
    let s = Svc { k: 40 };
    let r0 = 0u64;
    macro_rules! both {
        ($idx:expr, $fut:expr, $ty:ty, $mk:expr) => {
            if site == 0 {
                inj.when_called_async(injectorpp::async_func!($fut, $ty)).will_return_async(ret!($idx, 0, $ty, $mk));
            } else {
                inj.when_called_async(injectorpp::async_func!($fut, $ty)).will_return_async(ret!($idx, 1, $ty, $mk));
            }
        };
    }
    match i {
        0 => both!(0, a_unit(0), (), |_v| ()),
        1 => both!(1, a_u32(0), u32, |v| v as u32),
        2 => both!(2, a_u32_sibling(0), u32, |v| v as u32),
        3 => both!(3, a_u64_ref(&r0), u64, |v| v),
        4 => both!(4, a_bool(false), bool, |v| v & 1 == 1),
        5 => both!(5, a_string(""), String, |v| format!("fake-{v}")),
        6 => both!(6, a_string_sibling(0), String, |v| format!("fake-{v}")),
        7 => both!(7, a_vec(0), Vec<u8>, |v| vec![(v & 0xFF) as u8; 3]),
        8 => both!(8, a_tuple(0), (u64, String), |v| (v, format!("f{v}"))),
        9 => both!(9, a_big(0), Big264, |v| Big264 { head: v, body: [v ^ 0x55; 31], tail: v + 1 }),
        _ => both!(10, s.m_u32(0), u32, |v| v as u32),
    }
}

#[derive(Serialize, Deserialize, Clone, Debug, Hash, PartialEq, Eq)]
pub enum AOp {
    /// fake (or re-fake) function i with value v
    Fake { i: u8, v: u32 },
    Await { i: u8, arg: u16, thread: u8 },
    /// n consecutive awaits of function i under the current installation ("any number of times")
    Burst { i: u8, n: u16 },
    EndLifetime,
    /// the injector goes out of scope because a panic unwinds through the scope that owns it
    EndLifetimeUnwind,
    /// Fake{i, v}, and function i awaited once at the earliest possible moment: when the library
    /// flushes the poll function's entry it has just patched (what a task on another thread can do)
    FakeAwaitedDuringInstall { i: u8, v: u32 },
    /// two executor threads await functions i and j (possibly the same one) n times each at the
    /// same time, while every value expression takes `slow_us` microseconds: awaits overlap
    /// inside value expressions
    Overlap { i: u8, j: u8, n: u8, slow_us: u16 },
}

#[derive(Serialize, Deserialize, Clone, Debug, Hash, PartialEq, Eq)]
pub struct AsyncCase {
    pub ops: Vec<AOp>,
    /// the whole case runs from tear-down code executed while the thread unwinds from a failed
    /// test body (`std::thread::panicking()` is true throughout)
    #[serde(default)]
    pub in_teardown: bool,
}

#[derive(Serialize, Deserialize, Clone, Debug, Default)]
pub struct AwaitObs {
    /// Burst: number of awaits aggregated in this record (0 = a single await)
    #[serde(default)]
    pub burst: u32,
    /// Burst: how many of them needed more than one poll / yielded something other than `value`
    #[serde(default)]
    pub burst_slow: u32,
    #[serde(default)]
    pub burst_other_values: u32,
    #[serde(default)]
    pub burst_first_slow: Option<u32>,
    pub op: usize,
    pub i: usize,
    pub arg: u64,
    pub thread: u8,
    pub value: String,
    pub polls: u32,
    pub orig_runs_delta: u64,
    pub evals_delta: u64,
    pub panicked: Option<String>,
}

#[derive(Serialize, Deserialize, Clone, Debug, Default)]
pub struct AsyncObs {
    pub awaits: Vec<AwaitObs>,
    pub install_panics: Vec<String>,
    /// site used by the k-th Fake op (alternates per function within a lifetime)
    pub sites: Vec<(usize, u8)>,
}

pub fn execute(c: &AsyncCase) -> AsyncObs {
    if c.in_teardown {
        crate::worker::while_unwinding(|| execute_inner(c))
    } else {
        execute_inner(c)
    }
}

fn execute_inner(c: &AsyncCase) -> AsyncObs {
    let mut o = AsyncObs::default();
    ip::plan_reset();
    let mut inj: Option<InjectorPP> = None;
    let mut nfakes = [0u8; N_FNS];
    let mut ops: Vec<AOp> = c.ops.clone();
    ops.push(AOp::EndLifetime);
    // after the last lifetime: every function once more, must be original
    for i in 0..N_FNS {
        ops.push(AOp::Await { i: i as u8, arg: 3, thread: 0 });
    }
    for (k, op) in ops.iter().enumerate() {
        match op {
            AOp::Fake { i, v } => {
                let i = *i as usize % N_FNS;
                if inj.is_none() {
                    inj = Some(ip::sut(InjectorPP::new));
                }
                let site = nfakes[i] % 2;
                nfakes[i] += 1;
                VAL[i].store(*v as u64, SeqCst);
                crate::worker::phase("install");
                let r = std::panic::catch_unwind(std::panic::AssertUnwindSafe(|| ip::sut(|| install(inj.as_mut().unwrap(), i, site))));
                if r.is_err() {
                    o.install_panics.push(format!("op {k}: {}", crate::worker::last_panic()));
                }
                o.sites.push((k, site));
            }
            AOp::FakeAwaitedDuringInstall { i, v } => {
                let i = *i as usize % N_FNS;
                if inj.is_none() {
                    inj = Some(ip::sut(InjectorPP::new));
                }
                let site = nfakes[i] % 2;
                nfakes[i] += 1;
                VAL[i].store(*v as u64, SeqCst);
                crate::worker::phase("install");
                let r0 = ORIG_RUNS[i].load(SeqCst);
                let e0 = EVALS[i].load(SeqCst);
                let early: std::rc::Rc<std::cell::RefCell<Option<Result<(String, u32), String>>>> = Default::default();
                let e2 = early.clone();
                ip::set_flush_hook(poll_addr_i(i), Box::new(move || {
                    crate::worker::phase("await-during-install");
                    *e2.borrow_mut() = Some(std::panic::catch_unwind(|| await_fn(i, 5)).map_err(|_| crate::worker::last_panic()));
                    crate::worker::phase("install");
                }));
                let r = std::panic::catch_unwind(std::panic::AssertUnwindSafe(|| ip::sut(|| install(inj.as_mut().unwrap(), i, site))));
                ip::clear_flush_hook();
                if r.is_err() {
                    o.install_panics.push(format!("op {k}: {}", crate::worker::last_panic()));
                }
                o.sites.push((k, site));
                // (if the library flushed nothing there, the await happens right after instead)
                let res = early.borrow_mut().take().unwrap_or_else(|| std::panic::catch_unwind(|| await_fn(i, 5)).map_err(|_| crate::worker::last_panic()));
                let mut a = AwaitObs { op: k, i, arg: 5, thread: 0, orig_runs_delta: ORIG_RUNS[i].load(SeqCst) - r0, evals_delta: EVALS[i].load(SeqCst) - e0, ..Default::default() };
                match res {
                    Ok((v, p)) => {
                        a.value = v;
                        a.polls = p;
                    }
                    Err(m) => a.panicked = Some(m),
                }
                o.awaits.push(a);
            }
            AOp::Await { i, arg, thread } => {
                let i = *i as usize % N_FNS;
                let arg = *arg as u64;
                let r0 = ORIG_RUNS[i].load(SeqCst);
                let e0 = EVALS[i].load(SeqCst);
                crate::worker::phase("await");
                let res = if *thread % 4 == 0 {
                    std::panic::catch_unwind(|| await_fn(i, arg)).map_err(|_| crate::worker::last_panic())
                } else {
                    std::thread::scope(|s| s.spawn(move || std::panic::catch_unwind(|| await_fn(i, arg)).map_err(|_| crate::worker::last_panic())).join().unwrap_or_else(|_| Err("executor thread died".into())))
                };
                let mut a = AwaitObs { op: k, i, arg, thread: *thread % 4, orig_runs_delta: ORIG_RUNS[i].load(SeqCst) - r0, evals_delta: EVALS[i].load(SeqCst) - e0, ..Default::default() };
                match res {
                    Ok((v, p)) => {
                        a.value = v;
                        a.polls = p;
                    }
                    Err(m) => a.panicked = Some(m),
                }
                o.awaits.push(a);
            }
            AOp::Overlap { i, j, n, slow_us } => {
                let fns = [*i as usize % N_FNS, *j as usize % N_FNS];
                let n = (*n as u32).clamp(2, 64);
                let r0 = [ORIG_RUNS[fns[0]].load(SeqCst), ORIG_RUNS[fns[1]].load(SeqCst)];
                let e0 = [EVALS[fns[0]].load(SeqCst), EVALS[fns[1]].load(SeqCst)];
                crate::worker::phase("await-overlapping");
                SLOW_US.store((*slow_us as u64).clamp(20, 400), SeqCst);
                let barrier = std::sync::Barrier::new(2);
                let mut recs: Vec<AwaitObs> = std::thread::scope(|s| {
                    let hs: Vec<_> = (0..2usize)
                        .map(|t| {
                            let barrier = &barrier;
                            let f = fns[t];
                            s.spawn(move || {
                                let mut a = AwaitObs { op: k, i: f, arg: 9, burst: n, thread: 1 + t as u8, ..Default::default() };
                                barrier.wait();
                                let res = std::panic::catch_unwind(|| {
                                    let mut first: Option<(String, u32)> = None;
                                    let (mut slow, mut other, mut first_slow) = (0u32, 0u32, None);
                                    for x in 0..n {
                                        let (v, p) = await_fn(f, 9);
                                        if first.is_none() {
                                            first = Some((v.clone(), p));
                                        }
                                        if p != first.as_ref().unwrap().1 {
                                            slow += 1;
                                            if first_slow.is_none() {
                                                first_slow = Some(x);
                                            }
                                        }
                                        if v != first.as_ref().unwrap().0 {
                                            other += 1;
                                        }
                                    }
                                    (first.unwrap(), slow, other, first_slow)
                                });
                                match res {
                                    Ok(((v, p), slow, other, fs)) => {
                                        a.value = v;
                                        a.polls = p;
                                        a.burst_slow = slow;
                                        a.burst_other_values = other;
                                        a.burst_first_slow = fs;
                                    }
                                    Err(_) => a.panicked = Some(crate::worker::last_panic()),
                                }
                                a
                            })
                        })
                        .collect();
                    hs.into_iter().map(|h| h.join().unwrap_or_else(|_| AwaitObs { panicked: Some("executor thread died".into()), ..Default::default() })).collect()
                });
                SLOW_US.store(0, SeqCst);
                for (t, a) in recs.iter_mut().enumerate() {
                    a.orig_runs_delta = ORIG_RUNS[fns[t]].load(SeqCst) - r0[t];
                    a.evals_delta = EVALS[fns[t]].load(SeqCst) - e0[t];
                }
                o.awaits.extend(recs);
            }
            AOp::Burst { i, n } => {
                let i = *i as usize % N_FNS;
                let n = (*n as u32).clamp(2, 600);
                let r0 = ORIG_RUNS[i].load(SeqCst);
                let e0 = EVALS[i].load(SeqCst);
                crate::worker::phase("await-burst");
                let mut a = AwaitObs { op: k, i, arg: 9, burst: n, ..Default::default() };
                let res = std::panic::catch_unwind(|| {
                    let mut first: Option<(String, u32)> = None;
                    let (mut slow, mut other, mut first_slow) = (0u32, 0u32, None);
                    for j in 0..n {
                        let (v, p) = await_fn(i, 9);
                        if first.is_none() {
                            first = Some((v.clone(), p));
                        }
                        if p != first.as_ref().unwrap().1 {
                            slow += 1;
                            if first_slow.is_none() {
                                first_slow = Some(j);
                            }
                        }
                        if v != first.as_ref().unwrap().0 {
                            other += 1;
                        }
                    }
                    (first.unwrap(), slow, other, first_slow)
                });
                match res {
                    Ok(((v, p), slow, other, fs)) => {
                        a.value = v;
                        a.polls = p;
                        a.burst_slow = slow;
                        a.burst_other_values = other;
                        a.burst_first_slow = fs;
                    }
                    Err(_) => a.panicked = Some(crate::worker::last_panic()),
                }
                a.orig_runs_delta = ORIG_RUNS[i].load(SeqCst) - r0;
                a.evals_delta = EVALS[i].load(SeqCst) - e0;
                o.awaits.push(a);
            }
            AOp::EndLifetime => {
                crate::worker::phase("drop");
                if let Some(i) = inj.take() {
                    ip::sut(|| drop(i));
                }
                nfakes = [0; N_FNS];
            }
            AOp::EndLifetimeUnwind => {
                crate::worker::phase("drop");
                if let Some(i) = inj.take() {
                    let _ = std::panic::catch_unwind(std::panic::AssertUnwindSafe(move || {
                        ip::sut(move || {
                            let _scope = i;
                            panic!("user panic at the end of the scope");
                        })
                    }));
                }
                nfakes = [0; N_FNS];
            }
        }
    }
    o
}

pub fn strategy() -> impl Strategy<Value = AsyncCase> {
    let op = prop_oneof![
        3 => (0u8..N_FNS as u8, any::<u32>()).prop_map(|(i, v)| AOp::Fake { i, v: v % 900_000 }),
        1 => (0u8..N_FNS as u8, any::<u32>()).prop_map(|(i, v)| AOp::FakeAwaitedDuringInstall { i, v: v % 900_000 }),
        5 => (0u8..N_FNS as u8, any::<u16>(), 0u8..4).prop_map(|(i, arg, thread)| AOp::Await { i, arg, thread }),
        1 => (0u8..N_FNS as u8, prop_oneof![2 => 2u16..40, 2 => 120u16..300, 1 => 300u16..600]).prop_map(|(i, n)| AOp::Burst { i, n }),
        1 => prop_oneof![2 => Just(AOp::EndLifetime), 1 => Just(AOp::EndLifetimeUnwind)],
        1 => (0u8..N_FNS as u8, 0u8..N_FNS as u8, 4u8..40, prop_oneof![Just(60u16), Just(150u16), 20u16..400]).prop_map(|(i, j, n, slow_us)| AOp::Overlap { i, j, n, slow_us }),
    ];
    (prop::collection::vec(op, 1..=24), 0u8..N_FNS as u8).prop_map(|(ops, focus)| {
        // concentrate on a window of 4 functions so that fakes and awaits meet
        let ops = ops
            .into_iter()
            .map(|o| match o {
                AOp::Fake { i, v } => AOp::Fake { i: (focus + i % 4) % N_FNS as u8, v },
                AOp::FakeAwaitedDuringInstall { i, v } => AOp::FakeAwaitedDuringInstall { i: (focus + i % 4) % N_FNS as u8, v },
                AOp::Await { i, arg, thread } => AOp::Await { i: (focus + i % 4) % N_FNS as u8, arg, thread },
                AOp::Burst { i, n } => AOp::Burst { i: (focus + i % 4) % N_FNS as u8, n },
                AOp::Overlap { i, j, n, slow_us } => AOp::Overlap { i: (focus + i % 4) % N_FNS as u8, j: (focus + j % 4) % N_FNS as u8, n, slow_us },
                x => x,
            })
            .collect();
        AsyncCase { ops, in_teardown: false }
    })
    .prop_flat_map(|c| (Just(c), prop::bool::weighted(0.07)).prop_map(|(mut c, t)| {
        c.in_teardown = t;
        c
    }))
}

pub fn judge(rec: &mut Recorder, c: &AsyncCase, ex: Exec, _hello: &Value) -> Result<(), String> {
    let o: AsyncObs = match ex {
        Exec::Timeout => {
            rec.count("watchdog", 1);
            if rec.counters.get("watchdog").copied().unwrap_or(0) > 3 {
                rec.inconclusive.push("worker watchdog expired repeatedly".into());
            }
            return Ok(());
        }
        Exec::Died { signal, code, phase, stderr_tail } => {
            rec.eval(|| json!({"case": c, "outcome": "worker died"}));
            let s = signal.map(signal_name).unwrap_or("exit");
            return rec.fail(&format!("C14/native/died/{s}/{phase}"), format!("worker died ({s} code {code:?}) in phase '{phase}' while executing {c:?}; stderr: {stderr_tail}"));
        }
        Exec::Obs(v) => {
            if let Some(e) = v.get("harness_error") {
                rec.inconclusive.push(format!("harness error: {e}"));
                return Ok(());
            }
            match serde_json::from_value(v) {
                Ok(o) => o,
                Err(e) => {
                    rec.inconclusive.push(format!("bad observation: {e}"));
                    return Ok(());
                }
            }
        }
    };
    rec.eval(|| json!({"case": c, "awaits": o.awaits.iter().take(12).map(|a| format!("fn{} arg {} thread {} -> {} in {} poll(s)", a.i, a.arg, a.thread, a.value.chars().take(40).collect::<String>(), a.polls)).collect::<Vec<_>>()}));
    if c.in_teardown {
        rec.class("case-inside-tear-down-while-unwinding");
    }
    let sig = |s: &str| format!("C14/native/{s}");
    if !o.install_panics.is_empty() {
        return rec.fail(&sig("install-refused"), format!("{:?}; case {c:?}", o.install_panics));
    }
    // replay the model over the ops
    // (an installation awaited while it was being completed = the installation, then that await)
    let mut ops: Vec<AOp> = c.ops.iter().flat_map(|op| match op {
        AOp::FakeAwaitedDuringInstall { i, v } => vec![AOp::Fake { i: *i, v: *v }, AOp::Await { i: *i, arg: 5, thread: 0 }],
        other => vec![other.clone()],
    }).collect();
    if c.ops.iter().any(|op| matches!(op, AOp::FakeAwaitedDuringInstall { .. })) {
        rec.class("awaited-while-being-installed");
    }
    ops.push(AOp::EndLifetime);
    for i in 0..N_FNS {
        ops.push(AOp::Await { i: i as u8, arg: 3, thread: 0 });
    }
    let mut current: [Option<(u8, u64)>; N_FNS] = [None; N_FNS];
    let mut nfakes = [0u8; N_FNS];
    let mut lifetimes = 1;
    let mut refake = false;
    let mut sibling_await = false;
    let mut big = false;
    let mut burst = false;
    let mut overlap = false;
    let mut ai = 0;
    const SAME_OUT: [&[usize]; 3] = [&[1, 2, 10], &[5, 6], &[]];
    for (k, op) in ops.iter().enumerate() {
        match op {
            AOp::FakeAwaitedDuringInstall { .. } => unreachable!("expanded above"),
            AOp::Fake { i, v } => {
                let i = *i as usize % N_FNS;
                if current[i].is_some() {
                    refake = true;
                }
                current[i] = Some((nfakes[i] % 2, *v as u64));
                nfakes[i] += 1;
            }
            AOp::EndLifetime | AOp::EndLifetimeUnwind => {
                if current.iter().any(|c| c.is_some()) && k + 1 + N_FNS < ops.len() {
                    lifetimes += 1;
                }
                if *op == AOp::EndLifetimeUnwind && current.iter().any(|c| c.is_some()) {
                    rec.class("lifetime-with-fakes-ended-by-unwinding");
                }
                current = [None; N_FNS];
                nfakes = [0; N_FNS];
            }
            AOp::Overlap { i, j, .. } => {
                let fns = [*i as usize % N_FNS, *j as usize % N_FNS];
                let same = fns[0] == fns[1];
                for t in 0..2 {
                    let f = fns[t];
                    let a = &o.awaits[ai];
                    ai += 1;
                    let n = a.burst as u64;
                    let total = if same { 2 * n } else { n };
                    let ctx = |s: String| format!("op {k}: executor thread {} awaits fn{f} {n} times while another executor thread awaits fn{} at the same time: {s}; case {c:?}", t + 1, fns[1 - t]);
                    if let Some(p) = &a.panicked {
                        return rec.fail(&sig("await-panicked"), ctx(format!("panicked: {p}")));
                    }
                    match current[f] {
                        Some((site, v)) => {
                            let want = fake_repr(f, site, v);
                            if a.polls != 1 || a.burst_slow != 0 {
                                return rec.fail(&sig("faked-await-not-ready-on-first-poll/awaits-overlap-on-two-threads"), ctx(format!("{} of the awaits did not complete on their first poll (first such await: #{:?}; the first await took {} poll(s))", a.burst_slow, a.burst_first_slow, a.polls)));
                            }
                            if a.value != want || a.burst_other_values != 0 {
                                return rec.fail(&sig("faked-await-wrong-value/awaits-overlap-on-two-threads"), ctx(format!("first await yielded {}, {} later ones something else; the fake yields {want}", a.value, a.burst_other_values)));
                            }
                            if a.orig_runs_delta != 0 {
                                return rec.fail(&sig("original-body-ran-while-faked"), ctx(format!("original body ran {} time(s)", a.orig_runs_delta)));
                            }
                            if a.evals_delta != total {
                                return rec.fail(&sig("value-not-evaluated-afresh/awaits-overlap-on-two-threads"), ctx(format!("the value expression was evaluated {} time(s) for {total} awaits", a.evals_delta)));
                            }
                            rec.class(if same { "awaits-overlap-on-two-threads/same-faked-function" } else if current[fns[1 - t]].is_some() { "awaits-overlap-on-two-threads/two-faked-functions" } else { "awaits-overlap-on-two-threads/faked-and-unfaked" });
                            overlap = true;
                        }
                        None => {
                            let want = orig_repr(f, 9);
                            if a.value != want || a.polls != 2 || a.burst_slow != 0 || a.burst_other_values != 0 || a.orig_runs_delta != total || a.evals_delta != 0 {
                                return rec.fail(&sig("unfaked-sibling-affected"), ctx(format!("unfaked function: first await {} in {} polls, {} awaits deviated, original ran {} times; original yields {want} in 2 polls each", a.value, a.polls, a.burst_slow + a.burst_other_values, a.orig_runs_delta)));
                            }
                        }
                    }
                }
            }
            AOp::Burst { i, .. } => {
                let i = *i as usize % N_FNS;
                let a = &o.awaits[ai];
                ai += 1;
                let n = a.burst as u64;
                let ctx = |s: String| format!("op {k}: {n} consecutive awaits of fn{i}: {s}; case {c:?}");
                if let Some(p) = &a.panicked {
                    return rec.fail(&sig("await-panicked"), ctx(format!("panicked: {p}")));
                }
                match current[i] {
                    Some((site, v)) => {
                        let want = fake_repr(i, site, v);
                        if a.polls != 1 || a.burst_slow != 0 {
                            return rec.fail(&sig("faked-await-not-ready-on-first-poll"), ctx(format!("{} of the awaits did not complete on their first poll (first such await: #{:?}; the first await took {} poll(s))", a.burst_slow, a.burst_first_slow, a.polls)));
                        }
                        if a.value != want || a.burst_other_values != 0 {
                            return rec.fail(&sig("faked-await-wrong-value"), ctx(format!("first await yielded {}, {} later ones something else; the fake yields {want}", a.value, a.burst_other_values)));
                        }
                        if a.orig_runs_delta != 0 {
                            return rec.fail(&sig("original-body-ran-while-faked"), ctx(format!("original body ran {} time(s)", a.orig_runs_delta)));
                        }
                        if a.evals_delta != n {
                            return rec.fail(&sig("value-not-evaluated-afresh"), ctx(format!("the value expression was evaluated {} time(s) for {n} awaits", a.evals_delta)));
                        }
                        if n >= 120 {
                            burst = true;
                        }
                    }
                    None => {
                        let want = orig_repr(i, 9);
                        if a.value != want || a.polls != 2 || a.burst_slow != 0 || a.burst_other_values != 0 || a.orig_runs_delta != n || a.evals_delta != 0 {
                            return rec.fail(&sig("unfaked-sibling-affected"), ctx(format!("unfaked function: first await {} in {} polls, {} awaits deviated, original ran {} times; original yields {want} in 2 polls each", a.value, a.polls, a.burst_slow + a.burst_other_values, a.orig_runs_delta)));
                        }
                    }
                }
            }
            AOp::Await { i, arg, .. } => {
                let i = *i as usize % N_FNS;
                let a = &o.awaits[ai];
                ai += 1;
                let ctx = |s: String| format!("op {k} await fn{i}(arg {arg}) on executor thread {}: {s}; case {c:?}", a.thread);
                if let Some(p) = &a.panicked {
                    return rec.fail(&sig("await-panicked"), ctx(format!("panicked: {p}")));
                }
                match current[i] {
                    Some((site, v)) => {
                        let want = fake_repr(i, site, v);
                        if a.polls != 1 {
                            return rec.fail(&sig("faked-await-not-ready-on-first-poll"), ctx(format!("completed after {} polls", a.polls)));
                        }
                        if a.value != want {
                            return rec.fail(&sig("faked-await-wrong-value"), ctx(format!("yielded {}, the latest fake yields {want}", a.value)));
                        }
                        if a.orig_runs_delta != 0 {
                            return rec.fail(&sig("original-body-ran-while-faked"), ctx(format!("original body ran {} time(s)", a.orig_runs_delta)));
                        }
                        if a.evals_delta != 1 {
                            return rec.fail(&sig("value-not-evaluated-afresh"), ctx(format!("the value expression was evaluated {} time(s) for this await (must be exactly 1: a fresh copy per await)", a.evals_delta)));
                        }
                        if i == 9 {
                            big = true;
                        }
                    }
                    None => {
                        let want = orig_repr(i, *arg as u64);
                        if a.value != want || a.polls != 2 || a.orig_runs_delta != 1 || a.evals_delta != 0 {
                            let any_faked: Vec<usize> = current.iter().enumerate().filter(|(_, c)| c.is_some()).map(|(j, _)| j).collect();
                            let what = if any_faked.is_empty() { "original-not-back-after-lifetime" } else { "unfaked-sibling-affected" };
                            return rec.fail(&sig(what), ctx(format!("unfaked function yielded {} in {} polls (original ran {} times, fake value evaluated {} times); original yields {want} in 2 polls; currently faked: {any_faked:?}", a.value, a.polls, a.orig_runs_delta, a.evals_delta)));
                        }
                        for group in SAME_OUT {
                            if group.contains(&i) && group.iter().any(|j| *j != i && current[*j].is_some()) {
                                sibling_await = true;
                            }
                        }
                    }
                }
            }
        }
    }
    rec.class(&format!("lifetimes={}{}{}{}", lifetimes.min(4), if refake { "/re-fake" } else { "" }, if sibling_await { "/same-output-sibling-awaited" } else { "" }, if big { "/big-output" } else { "" }));
    if burst {
        rec.class("burst>=120-awaits-of-one-installation");
    }
    if sibling_await || refake || big || burst || overlap || lifetimes >= 2 {
        rec.nontrivial(&c.ops);
    }
    Ok(())
}

/// Address of the compiler-generated `poll` of a future type (what `when_called_async` patches).
pub fn poll_addr<F: Future>(_f: &F) -> usize {
    let p: fn(Pin<&mut F>, &mut Context<'_>) -> Poll<F::Output> = <F as Future>::poll;
    p as usize
}
