//! Command drivers of the S1 engines (compiled with feature "s1").
use serde_json::{json, Value};
use vcommon::{arg_value, cases, out_path, run_prop, Recorder};
use vsim::s1::{self, *};

pub fn parse_modes(s: Option<String>) -> Vec<Mode> {
    let s = s.unwrap_or_else(|| "fn,bool".into());
    let mut v = vec![];
    for p in s.split(',') {
        match p {
            "fn" => v.push(Mode::Fn),
            "bool" => {
                v.push(Mode::Bool(true));
                v.push(Mode::Bool(false));
            }
            _ => {}
        }
    }
    v
}

fn report<V: serde::Serialize + std::fmt::Debug>(rec: &mut Recorder, out: vcommon::PropOutcome<V>) {
    if let Some((case, msg)) = out.failure {
        let sig = msg.split(']').next().unwrap_or("").trim_start_matches('[').to_string();
        rec.unfreeze();
        rec.violation(&sig, &msg, serde_json::to_value(&case).unwrap_or(Value::Null));
    }
}

fn guard<T>(rec: &mut Recorder, r: Result<T, String>) -> Result<T, String> {
    if r.is_err() {
        rec.freeze();
    }
    r
}

pub fn cmd_arm64(prop: &str) -> i32 {
    let modes = parse_modes(arg_value("--modes"));
    let rule = "S1: real patch_arm64.rs/arm64_codegenerator.rs (Linux and macOS cfg variants) run on generated (func, trampoline, fake, mode); non-trivial = installed case with a distinct (variant, func, trampoline, fake, mode) whose bytes decoded through the independent A64 decoder to the fake / the boolean, plus refusals within 64 bytes of the +/-128 MiB edge";
    let mut rec = Recorder::new(prop, "s1-arm64", rule);
    rec.assumptions.push("A64 semantics as implemented by decoders.rs (cross-checked against llvm-mc in `vsim selftest`)".into());
    rec.assumptions.push("shimmed common.rs interface (FuncPtrInternal, PatchGuard::new, allocate_jit_memory, read_bytes, patch_function, inject_asm_code)".into());
    quiet_panics();
    let only = arg_value("--variant").map(|v| v == "macos");

    // (a) exhaustive sub-sweep: every 16-bit chunk value in every chunk position of the fake
    if modes.contains(&Mode::Fn) {
        let base = vcommon::mix(vcommon::seed(), 0xC15);
        let step = if vcommon::tier() == vcommon::Tier::Thorough { 1 } else { 1 };
        'sweep: for pos in 0..4u32 {
            let mut chunk = 0u32;
            while chunk < 65536 {
                let fake = ((base & !(0xFFFFu64 << (16 * pos))) | ((chunk as u64) << (16 * pos))).max(1);
                let c = A64Case { macos: chunk & 1 == 1, func: 0x7000_1000 + 16 * pos as u64, jit: 0x7100_0000, fake, mode: Mode::Fn, salt: base };
                if let Err(m) = a64_check(&mut rec, &c) {
                    let sig = m.split(']').next().unwrap_or("").trim_start_matches('[').to_string();
                    rec.violation(&sig, &m, json!({"A64Case": c}));
                    break 'sweep;
                }
                chunk += step;
            }
        }
        rec.exhaustive_parts.push("fake address: all 65536 values of each 16-bit chunk in each of the 4 positions (other chunks fixed by the seed)".into());
        // (b) enumerated entry displacements around both edges, both variants, and the page
        //     differences at the ADRP limits
        'edges: for macos in [false, true] {
            if only.is_some() && only != Some(macos) {
                continue;
            }
            for edge in [-A64_REACH, A64_REACH, 0] {
                for k in -80i64..=80 {
                    for func in [0x4000_0000u64, 0x4000_0FFC, 0x0800_0000, 0x7FFF_F000_0000] {
                        let jit = func.wrapping_add((edge + 4 * k) as u64);
                        if jit == 0 || s1::overlaps(func, jit) {
                            continue;
                        }
                        let c = A64Case { macos, func, jit, fake: base | 1, mode: Mode::Fn, salt: base ^ k as u64 };
                        if let Err(m) = a64_check(&mut rec, &c) {
                            let sig = m.split(']').next().unwrap_or("").trim_start_matches('[').to_string();
                            rec.violation(&sig, &m, json!({"A64Case": c}));
                            break 'edges;
                        }
                    }
                }
            }
        }
        rec.exhaustive_parts.push("entry displacement: every word-aligned value within 80 words of -128 MiB, 0 and +128 MiB, 4 function addresses, both variants".into());
        if rec.violations.is_empty() && only != Some(false) {
            // macOS long form: page differences swept (all 2^21 in the thorough tier)
            let stride: i64 = if vcommon::tier() == vcommon::Tier::Thorough { 1 } else { 61 };
            let mut pd: i64 = -(1 << 20);
            'adrp: while pd < (1 << 20) {
                for (fo, jo) in [(0u64, 0u64), (0xFFC, 0), (0x10, 0xFF0)] {
                    let func = 0x2_0000_0000u64 + fo;
                    let jit = (0x2_0000_0000u64 as i64 + pd * 4096) as u64 + jo;
                    if s1::overlaps(func, jit) {
                        // (a trampoline is never the function's own page)
                        continue;
                    }
                    let c = A64Case { macos: true, func, jit, fake: base | 1, mode: Mode::Fn, salt: base };
                    if let Err(m) = a64_check(&mut rec, &c) {
                        let sig = m.split(']').next().unwrap_or("").trim_start_matches('[').to_string();
                        rec.violation(&sig, &m, json!({"A64Case": c}));
                        break 'adrp;
                    }
                }
                pd += stride;
            }
            rec.exhaustive_parts.push(format!("macOS ADRP page difference: -2^20..2^20 with stride {stride}, 3 in-page offset pairs"));
        }
    }
    // (c) generated search
    if rec.violations.is_empty() {
        let n = cases(300_000, 20_000_000);
        let strat = a64_case(only, modes.clone());
        let out = run_prop(15, n, strat, |c| {
            let r = a64_check(&mut rec, c);
            guard(&mut rec, r)
        });
        report(&mut rec, out.map_case(|c| json!({"A64Case": c})));
    }
    if rec.counters.get("installed").copied().unwrap_or(0) == 0 {
        rec.inconclusive.push("no installation succeeded: nothing was judged".into());
    }
    rec.finish(&out_path())
}

pub fn cmd_arm(prop: &str) -> i32 {
    let modes = parse_modes(arg_value("--modes"));
    let rule = "S1: real patch_arm.rs run on generated (entry incl. Thumb bit and alignment class, fake incl. Thumb bit, mode); non-trivial = distinct installed (entry, fake, mode) whose 12 bytes decoded (A32/T32 decoder with Align(PC,4) literal addressing) to a load of the fake and an interworking branch";
    let mut rec = Recorder::new(prop, "s1-arm", rule);
    rec.assumptions.push("A32/T32 semantics as implemented by decoders.rs (cross-checked against llvm-mc in `vsim selftest`); AAPCS32 with r9 callee-saved (Linux)".into());
    quiet_panics();
    // enumerated: every alignment class x addresses next to both ends of the address space
    let base = vcommon::mix(vcommon::seed(), 0xC16);
    'enumr: for entry_base in [8u32, 12, 0x1000, 0xFFC, 0x7FFF_FFF8, 0x8000_0000, 0xFFFF_FFE0, 0xFFFF_FFD0] {
        for bits in [0u32, 1, 3] {
            for fake in [2u32, 3, 0xFFFF_FFFF, 0xFFFF_FFFE, 0x8000_0001, (base as u32) | 1, (base as u32) & !1] {
                for mode in &modes {
                    let c = ArmCase { entry: entry_base | bits, fake, mode: *mode, salt: base };
                    if let Err(m) = arm_check(&mut rec, &c) {
                        let sig = m.split(']').next().unwrap_or("").trim_start_matches('[').to_string();
                        rec.violation(&sig, &m, json!({"ArmCase": c}));
                        break 'enumr;
                    }
                }
            }
        }
    }
    if rec.violations.is_empty() {
        let n = cases(300_000, 30_000_000);
        let out = run_prop(16, n, arm_case(modes.clone()), |c| {
            let r = arm_check(&mut rec, c);
            guard(&mut rec, r)
        });
        report(&mut rec, out.map_case(|c| json!({"ArmCase": c})));
    }
    rec.finish(&out_path())
}

pub fn cmd_amd64(prop: &str) -> i32 {
    let modes = parse_modes(arg_value("--modes"));
    let rule = "S1: real patch_amd64.rs run on generated (func, trampoline, fake, mode) over the whole 64-bit space incl. entry displacements beyond +/-2 GiB; non-trivial = installed case with a long form, a displacement within 8 of the rel32 limits, a page-straddling entry or a function below 128 MiB; distinct by (func, trampoline, fake, mode)";
    let mut rec = Recorder::new(prop, "s1-amd64", rule);
    rec.assumptions.push("x86-64 forms E9/48B8/FFE0/48C7C0/B8/C3 as implemented by decoders.rs (cross-checked against llvm-mc in `vsim selftest`)".into());
    quiet_panics();
    // enumerated rel32 boundary on both hops
    let base = vcommon::mix(vcommon::seed(), 0xC01);
    'enumr: for func in [0x5555_5555_4000u64, 0x40_0FFD, 0x7F00_0000_0FFB] {
        for e in [i32::MAX as i64, i32::MIN as i64] {
            for k in -12i64..=12 {
                for hop in 0..2 {
                    let (jit, fake) = if hop == 0 {
                        let jit = func.wrapping_add(5).wrapping_add((e + k) as u64);
                        (jit, jit.wrapping_add(0x1234))
                    } else {
                        let jit = (func & !0xFFF).wrapping_sub(0x10_0000);
                        (jit, jit.wrapping_add(5).wrapping_add((e + k) as u64))
                    };
                    for mode in &modes {
                        let c = X86Case { func, jit, fake, mode: *mode, salt: base };
                        if let Err(m) = x86_check(&mut rec, prop, &c) {
                            let sig = m.split(']').next().unwrap_or("").trim_start_matches('[').to_string();
                            rec.violation(&sig, &m, json!({"X86Case": c}));
                            break 'enumr;
                        }
                    }
                }
            }
        }
    }
    rec.exhaustive_parts.push("rel32 boundary: every displacement within 12 of i32::MIN / i32::MAX on the entry hop and on the trampoline hop, 3 function addresses".into());
    if rec.violations.is_empty() {
        let n = cases(300_000, 20_000_000);
        let out = run_prop(1, n, x86_case(modes.clone()), |c| {
            let r = x86_check(&mut rec, prop, c);
            guard(&mut rec, r)
        });
        report(&mut rec, out.map_case(|c| json!({"X86Case": c})));
    }
    rec.finish(&out_path())
}

trait MapCase<V> {
    fn map_case(self, f: impl FnOnce(&V) -> Value) -> vcommon::PropOutcome<Value>;
}
impl<V> MapCase<V> for vcommon::PropOutcome<V> {
    fn map_case(self, f: impl FnOnce(&V) -> Value) -> vcommon::PropOutcome<Value> {
        vcommon::PropOutcome { failure: self.failure.map(|(v, m)| (f(&v), m)) }
    }
}

