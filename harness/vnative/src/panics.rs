//! Panic / fault enumeration (C05): scripted test bodies with exactly one panic source placed at
//! a generated position, for every kind of library-raised panic, with satisfied and
//! unsatisfied call-count expectations pending, repeated for consecutive lifetimes in one
//! process, followed by a fresh thread that must be able to use the injector normally.

use crate::driver::{signal_name, Exec};
use crate::interpose as ip;
use injectorpp::interface::injector::*;
use proptest::prelude::*;
use serde::{Deserialize, Serialize};
use serde_json::{json, Value};
use std::hint::black_box;
use std::sync::atomic::{AtomicU64, AtomicUsize, Ordering::SeqCst};
use vcommon::Recorder;

static TIMES_P: [AtomicUsize; 4] = [AtomicUsize::new(0), AtomicUsize::new(0), AtomicUsize::new(0), AtomicUsize::new(0)];
static MIN_P: AtomicU64 = AtomicU64::new(1000);

macro_rules! ptarget {
    ($name:ident, $v:expr) => {
        #[inline(never)]
        pub fn $name(a: u64) -> u64 {
            black_box(a.wrapping_add($v))
        }
    };
}
ptarget!(p_a, 11);
ptarget!(p_b, 22);
ptarget!(p_c, 33);
ptarget!(p_s, 44); // used by self-contained panic sources
ptarget!(p_r, 55); // the target of refused installations: must never be written
#[inline(never)]
pub fn p_fake_plain(a: u64) -> u64 {
    black_box(a.wrapping_add(9000))
}
#[inline(never)]
pub fn p_wrong_sig(a: u32) -> u64 {
    black_box(a as u64)
}
pub async fn p_async() -> u32 {
    black_box(5)
}

fn site(k: usize) -> (FuncPtr, CallCountVerifier) {
    match k {
        0 => injectorpp::fake!(func_type: fn(a: u64) -> u64, when: a >= MIN_P.load(SeqCst), returns: a + 100, times: TIMES_P[0].load(SeqCst)),
        1 => injectorpp::fake!(func_type: fn(a: u64) -> u64, when: a >= MIN_P.load(SeqCst), returns: a + 200, times: TIMES_P[1].load(SeqCst)),
        2 => injectorpp::fake!(func_type: fn(a: u64) -> u64, when: a >= MIN_P.load(SeqCst), returns: a + 300, times: TIMES_P[2].load(SeqCst)),
        _ => injectorpp::fake!(func_type: fn(a: u64) -> u64, when: a >= MIN_P.load(SeqCst), returns: a + 400, times: TIMES_P[3].load(SeqCst)),
    }
}
fn site_when_only() -> (FuncPtr, CallCountVerifier) {
    injectorpp::fake!(func_type: fn(a: u64) -> u64, when: a >= MIN_P.load(SeqCst), returns: a + 500)
}

#[derive(Serialize, Deserialize, Clone, Copy, Debug, Hash, PartialEq, Eq)]
pub enum Source {
    User,
    FakeRejectsArguments,
    OverCalled,
    RefusedSignature,
    RefusedNull,
    RefusedBooleanOnNonBool,
    RefusedUncheckedMix,
    RefusedAsyncOutput,
    AllocationFailure,
    MprotectFailure,
    /// every attempt to make the refused target's page writable fails (not only the first)
    MprotectFailurePersistent,
    /// the refused target's entry runs over a page boundary and only the SECOND page refuses to
    /// become writable (two mappings with different backing): nothing may have been written to
    /// the first page when the refusal is raised
    #[serde(alias = "MprotectFailureSecondPage")]
    MprotectFailureSecondPage,
}

/// a refused target on a page of its own (so that a persistent protection failure cannot affect
/// the restoration of other functions)
pub const LONE_TARGET: usize = 0x0000_2345_6789_0000 + 0x40;
static LONE_ARENA: std::sync::OnceLock<bool> = std::sync::OnceLock::new();
fn lone_target() -> Option<usize> {
    let ok = *LONE_ARENA.get_or_init(|| match crate::arena::Arena::map(LONE_TARGET & !0xFFF, 2 * crate::arena::PAGE) {
        Some(a) => {
            a.put_ret_id(LONE_TARGET, 0x10E);
            a.seal();
            std::mem::forget(a);
            true
        }
        None => false,
    });
    if ok { Some(LONE_TARGET) } else { None }
}

/// a refused target whose first two bytes are the last two of a page
pub const STRADDLE_BASE: usize = 0x0000_2345_6799_0000;
pub const STRADDLE_TARGET: usize = STRADDLE_BASE + 0x1000 - 2;
static STRADDLE_ARENA: std::sync::OnceLock<bool> = std::sync::OnceLock::new();
fn straddle_target() -> Option<usize> {
    let ok = *STRADDLE_ARENA.get_or_init(|| match crate::arena::Arena::map(STRADDLE_BASE, 2 * crate::arena::PAGE) {
        Some(a) => {
            a.put_ret_id(STRADDLE_TARGET, 0x20E);
            a.seal();
            std::mem::forget(a);
            true
        }
        None => false,
    });
    if ok { Some(STRADDLE_TARGET) } else { None }
}
/// the function an installation of the current lifetime's panic source is refused for
static REFUSED_ADDR: AtomicUsize = AtomicUsize::new(0);

#[derive(Serialize, Deserialize, Clone, Debug, Hash, PartialEq, Eq)]
pub enum PStep {
    /// times: Some(n) => fake!(..., times: n) through will_execute; None => plain function
    Install { t: u8, times: Option<u8> },
    Call { t: u8 },
}

#[derive(Serialize, Deserialize, Clone, Debug, Hash, PartialEq, Eq)]
pub struct PLife {
    pub steps: Vec<PStep>,
    /// (position in 0..=steps.len(), source, caught inside the scope)
    pub panic_at: Option<(u8, Source, bool)>,
    /// the lifetime runs from tear-down code executed while the thread unwinds from a failed test
    /// body: call-count verdicts at scope exit are not raised there, everything else is as usual
    #[serde(default)]
    pub in_teardown: bool,
}

#[derive(Serialize, Deserialize, Clone, Debug, Hash, PartialEq, Eq)]
pub struct PanicCase {
    pub lifetimes: Vec<PLife>,
}

#[derive(Serialize, Deserialize, Clone, Debug, Default)]
pub struct PLifeObs {
    pub hook_invocations: u64,
    pub messages: Vec<String>,
    pub escaped: bool,
    /// the model's prediction computed by the interpreter from what it actually executed
    pub predicted_panics: u64,
    #[serde(default)]
    pub fault_not_reached: bool,
    pub predicted_escape: bool,
    pub source_fired: bool,
    pub fakes_installed_at_panic: u64,
    pub pending_satisfied: u64,
    pub pending_unsatisfied: u64,
    pub not_pristine: Vec<String>,
    pub refused_target_written: bool,
    pub call_mismatch: Option<String>,
    pub log_mmaps_outstanding: u64,
}

#[derive(Serialize, Deserialize, Clone, Debug, Default)]
pub struct PanicObs {
    pub lifetimes: Vec<PLifeObs>,
    pub followup: String,
    pub followup_detail: String,
}

pub static REFUSED_SNAPSHOT_AT_PANIC: std::sync::Mutex<Vec<u8>> = std::sync::Mutex::new(Vec::new());

/// called from the panic hook: what do the refused target's bytes look like right now?
pub fn on_panic_snapshot() {
    let a = match REFUSED_ADDR.load(SeqCst) {
        0 => p_r as fn(u64) -> u64 as usize,
        a => a,
    };
    if let Ok(mut g) = REFUSED_SNAPSHOT_AT_PANIC.try_lock() {
        *g = crate::mem::read_direct(a, 16);
    }
}

struct Interp {
    faked: [Option<(u64, Option<(usize, usize)>)>; 3], // per target: (added value, Some((n, count)) for times fakes)
    times_used: [bool; 3],
    installs: u64,
}

fn targets3() -> [(fn(u64) -> u64, u64); 3] {
    [(p_a, 11), (p_b, 22), (p_c, 33)]
}

fn fire(inj: &mut InjectorPP, src: Source, st: &mut Interp, extra_unsat: &mut u64) {
    match src {
        Source::User => panic!("user panic in the test body"),
        Source::FakeRejectsArguments => {
            inj.when_called(injectorpp::func!(fn (p_s)(u64) -> u64)).will_execute(site_when_only());
            st.installs += 1;
            let _ = p_s(black_box(1)); // fails `when`
        }
        Source::OverCalled => {
            TIMES_P[3].store(1, SeqCst);
            inj.when_called(injectorpp::func!(fn (p_s)(u64) -> u64)).will_execute(site(3));
            st.installs += 1;
            *extra_unsat += 1; // from now on this expectation is pending; after two calls it is violated
            let _ = p_s(black_box(2000));
            let _ = p_s(black_box(2001)); // over budget
        }
        Source::RefusedSignature => {
            inj.when_called(injectorpp::func!(fn (p_r)(u64) -> u64)).will_execute_raw(injectorpp::func!(fn (p_wrong_sig)(u32) -> u64));
        }
        Source::RefusedNull => {
            let fp = unsafe { FuncPtr::new(std::ptr::null(), "fn(u64) -> u64") };
            inj.when_called(injectorpp::func!(fn (p_r)(u64) -> u64)).will_execute_raw(fp);
        }
        Source::RefusedBooleanOnNonBool => {
            inj.when_called(injectorpp::func!(fn (p_r)(u64) -> u64)).will_return_boolean(true);
        }
        Source::RefusedUncheckedMix => {
            let fp = unsafe { injectorpp::func_unchecked!(p_fake_plain) };
            inj.when_called(injectorpp::func!(fn (p_r)(u64) -> u64)).will_execute_raw(fp);
        }
        Source::RefusedAsyncOutput => {
            inj.when_called_async(injectorpp::async_func!(p_async(), u32)).will_return_async(injectorpp::async_return!(7u64, u64));
        }
        Source::AllocationFailure => {
            ip::MODE.store(ip::MODE_FAIL_ALL, SeqCst);
            inj.when_called(injectorpp::func!(fn (p_r)(u64) -> u64)).will_execute_raw(injectorpp::func!(fn (p_fake_plain)(u64) -> u64));
        }
        Source::MprotectFailure => {
            ip::MPROTECT_FAIL_AT.store(ip::MPROTECT_CALLS.load(SeqCst) + 1, SeqCst);
            inj.when_called(injectorpp::func!(fn (p_r)(u64) -> u64)).will_execute_raw(injectorpp::func!(fn (p_fake_plain)(u64) -> u64));
        }
        Source::MprotectFailurePersistent => match lone_target() {
            Some(t) => {
                ip::MPROTECT_FAIL_PAGE.store((t & !0xFFF) as u64, SeqCst);
                unsafe {
                    inj.when_called(FuncPtr::new(t as *const (), "fn(u64) -> u64")).will_execute_raw(injectorpp::func!(fn (p_fake_plain)(u64) -> u64));
                }
            }
            None => panic!("lone arena unavailable (harness)"),
        },
        Source::MprotectFailureSecondPage => match straddle_target() {
            Some(t) => {
                ip::MPROTECT_FAIL_PAGE.store((STRADDLE_BASE + 0x1000) as u64, SeqCst);
                unsafe {
                    inj.when_called(FuncPtr::new(t as *const (), "fn(u64) -> u64")).will_execute_raw(injectorpp::func!(fn (p_fake_plain)(u64) -> u64));
                }
            }
            None => panic!("straddle arena unavailable (harness)"),
        },
    }
}

pub fn execute(c: &PanicCase) -> PanicObs {
    let mut o = PanicObs::default();
    let all: Vec<(&str, usize)> = vec![("p_a", p_a as fn(u64) -> u64 as usize), ("p_b", p_b as fn(u64) -> u64 as usize), ("p_c", p_c as fn(u64) -> u64 as usize), ("p_s", p_s as fn(u64) -> u64 as usize), ("p_r", p_r as fn(u64) -> u64 as usize)];
    let pristine: Vec<Vec<u8>> = all.iter().map(|(_, a)| crate::mem::read_direct(*a, 16)).collect();
    for l in &c.lifetimes {
        let mut lo = PLifeObs::default();
        ip::plan_reset();
        ip::log_clear();
        crate::worker::panic_log_take();
        *REFUSED_SNAPSHOT_AT_PANIC.lock().unwrap() = vec![];
        let refused_addr = match l.panic_at {
            Some((_, Source::MprotectFailurePersistent, _)) => lone_target(),
            Some((_, Source::MprotectFailureSecondPage, _)) => straddle_target(),
            _ => None,
        }
        .unwrap_or(p_r as fn(u64) -> u64 as usize);
        REFUSED_ADDR.store(refused_addr, SeqCst);
        let pristine_refused = crate::mem::read_direct(refused_addr, 16);
        let before = crate::worker::PANIC_COUNT.load(SeqCst);
        let mut st = Interp { faked: [None, None, None], times_used: [false; 3], installs: 0 };
        let mut caught_panics = 0u64;
        let mut extra_unsat = 0u64;
        let mut source_fired = false;
        let mut fakes_at_panic = 0u64;
        let mut call_mismatch: Option<String> = None;
        crate::worker::phase("lifetime");
        let mut body = || std::panic::catch_unwind(std::panic::AssertUnwindSafe(|| {
            ip::sut(|| {
                let mut inj = InjectorPP::new();
                let npos = l.steps.len();
                for pos in 0..=npos {
                    if let Some((p, src, caught)) = l.panic_at {
                        if (p as usize).min(npos) == pos {
                            source_fired = true;
                            fakes_at_panic = st.installs;
                            if caught {
                                let r = std::panic::catch_unwind(std::panic::AssertUnwindSafe(|| fire(&mut inj, src, &mut st, &mut extra_unsat)));
                                ip::MODE.store(ip::MODE_PASS, SeqCst);
                                ip::MPROTECT_FAIL_AT.store(0, SeqCst);
                                ip::MPROTECT_FAIL_PAGE.store(0, SeqCst);
                                if r.is_err() {
                                    caught_panics += 1;
                                }
                            } else {
                                fire(&mut inj, src, &mut st, &mut extra_unsat);
                                // (only reached when the source did not panic: an injected fault
                                // that the library never met; it must not hit a later step instead)
                                ip::MODE.store(ip::MODE_PASS, SeqCst);
                                ip::MPROTECT_FAIL_AT.store(0, SeqCst);
                                ip::MPROTECT_FAIL_PAGE.store(0, SeqCst);
                            }
                        }
                    }
                    if pos == npos {
                        break;
                    }
                    match &l.steps[pos] {
                        PStep::Install { t, times } => {
                            let ti = *t as usize % 3;
                            match times {
                                Some(n) if !st.times_used[ti] => {
                                    TIMES_P[ti].store(*n as usize, SeqCst);
                                    let fp = match ti {
                                        0 => injectorpp::func!(fn (p_a)(u64) -> u64),
                                        1 => injectorpp::func!(fn (p_b)(u64) -> u64),
                                        _ => injectorpp::func!(fn (p_c)(u64) -> u64),
                                    };
                                    inj.when_called(fp).will_execute(site(ti));
                                    st.times_used[ti] = true;
                                    st.faked[ti] = Some((100 * (ti as u64 + 1), Some((*n as usize, 0))));
                                    st.installs += 1;
                                }
                                _ if st.faked[ti].map(|f| f.1.is_some()).unwrap_or(false) => {
                                    // keep the counted fake on top (one counted installation per target and lifetime)
                                }
                                _ => {
                                    let fp = match ti {
                                        0 => injectorpp::func!(fn (p_a)(u64) -> u64),
                                        1 => injectorpp::func!(fn (p_b)(u64) -> u64),
                                        _ => injectorpp::func!(fn (p_c)(u64) -> u64),
                                    };
                                    inj.when_called(fp).will_execute_raw(injectorpp::func!(fn (p_fake_plain)(u64) -> u64));
                                    st.faked[ti] = Some((9000, None));
                                    st.installs += 1;
                                }
                            }
                        }
                        PStep::Call { t } => {
                            let ti = *t as usize % 3;
                            let (f, add) = targets3()[ti];
                            let arg = 5000 + pos as u64;
                            match &mut st.faked[ti] {
                                Some((_, Some((n, cnt)))) if *cnt >= *n => { /* budget exhausted: the script does not over-call here */ }
                                Some((v, counted)) => {
                                    let got = f(black_box(arg));
                                    if let Some((_, cnt)) = counted {
                                        *cnt += 1;
                                    }
                                    if got != arg + *v && call_mismatch.is_none() {
                                        call_mismatch = Some(format!("call of target {ti} returned {got}, fake yields {}", arg + *v));
                                    }
                                }
                                None => {
                                    let got = f(black_box(arg));
                                    if got != arg.wrapping_add(add) && call_mismatch.is_none() {
                                        call_mismatch = Some(format!("unfaked target {ti} returned {got}, original yields {}", arg.wrapping_add(add)));
                                    }
                                }
                            }
                        }
                    }
                }
                // scope exit: `inj` dropped here (call-count verification may panic)
            })
        }));
        let r = if l.in_teardown { crate::worker::while_unwinding(body) } else { body() };
        ip::MODE.store(ip::MODE_PASS, SeqCst);
        ip::MPROTECT_FAIL_AT.store(0, SeqCst);
        ip::MPROTECT_FAIL_PAGE.store(0, SeqCst);
        lo.escaped = r.is_err();
        // (the panic that started the unwinding the tear-down runs under is the harness's own)
        lo.hook_invocations = crate::worker::PANIC_COUNT.load(SeqCst) - before - if l.in_teardown { 1 } else { 0 };
        lo.messages = crate::worker::panic_log_take();
        if l.in_teardown && !lo.messages.is_empty() {
            lo.messages.remove(0);
        }
        lo.source_fired = source_fired;
        lo.fakes_installed_at_panic = fakes_at_panic;
        lo.call_mismatch = call_mismatch;
        // ---- the model's prediction
        let mut sat = 0u64;
        let mut unsat = 0u64;
        for f in st.faked.iter().flatten() {
            if let Some((n, cnt)) = f.1 {
                if n == cnt {
                    sat += 1;
                } else {
                    unsat += 1;
                }
            }
        }
        // a caught OverCalled source leaves a violated expectation pending
        let over_pending = matches!(l.panic_at, Some((_, Source::OverCalled, true)));
        lo.pending_satisfied = sat;
        lo.pending_unsatisfied = unsat + if over_pending { 1 } else { 0 };
        // an injected platform fault only matters if the library made the call that was to fail
        // (an implementation that needs no trampoline for this pair never asks for memory)
        let env_fault = matches!(l.panic_at, Some((_, Source::AllocationFailure | Source::MprotectFailure | Source::MprotectFailurePersistent | Source::MprotectFailureSecondPage, _)));
        lo.fault_not_reached = env_fault && source_fired && ip::MMAP_FAILS.load(SeqCst) == 0 && ip::MPROTECT_FAILS.load(SeqCst) == 0;
        let uncaught_source = matches!(l.panic_at, Some((_, _, false))) && !lo.fault_not_reached;
        if lo.fault_not_reached {
            let exit_fires = lo.pending_unsatisfied > 0 && !l.in_teardown;
            lo.predicted_panics = if exit_fires { 1 } else { 0 };
            lo.predicted_escape = exit_fires;
        } else if uncaught_source {
            lo.predicted_panics = 1;
            lo.predicted_escape = true;
        } else {
            let exit_fires = lo.pending_unsatisfied > 0 && !l.in_teardown;
            lo.predicted_panics = caught_panics.max(if l.panic_at.is_some() { 1 } else { 0 }) + if exit_fires { 1 } else { 0 };
            lo.predicted_escape = exit_fires;
        }
        // ---- state after the unwind
        for (i, (n, a)) in all.iter().enumerate() {
            if crate::mem::read_direct(*a, 16) != pristine[i] {
                lo.not_pristine.push(n.to_string());
            }
        }
        let snap = REFUSED_SNAPSHOT_AT_PANIC.lock().unwrap().clone();
        let refused_src = matches!(l.panic_at, Some((_, s, _)) if !matches!(s, Source::User | Source::FakeRejectsArguments | Source::OverCalled));
        if refused_src && !snap.is_empty() && snap != pristine_refused {
            lo.refused_target_written = true;
        }
        if crate::mem::read_direct(refused_addr, 16) != pristine_refused {
            lo.not_pristine.push(format!("the refused target at {refused_addr:#x}"));
        }
        // mappings still outstanding after the lifetime (informational: a failed mprotect
        // legitimately strands the trampoline that was allocated before it; C12 covers leaks)
        let mut live = std::collections::BTreeSet::new();
        for e in ip::log_take() {
            match e.kind {
                ip::Kind::Mmap if e.ret != ip::MAP_FAILED as u64 => {
                    live.insert(e.ret);
                }
                ip::Kind::Munmap => {
                    live.remove(&e.a0);
                }
                _ => {}
            }
        }
        // (only counted, never unmapped behind the library's back: an implementation may
        // legitimately still own such a page, e.g. a pool shared by several trampolines)
        lo.log_mmaps_outstanding = live.len() as u64;
        let tainted = !lo.not_pristine.is_empty();
        o.lifetimes.push(lo);
        if tainted {
            o.followup = "skipped (targets not pristine)".into();
            return o;
        }
    }
    // ---- afterwards any thread can create a new injector and use it normally
    crate::worker::phase("followup");
    let (tx, rx) = std::sync::mpsc::channel();
    let h = std::thread::spawn(move || {
        let tid = unsafe { ip::raw_syscall(186, 0, 0, 0, 0, 0, 0) };
        let _ = tx.send(format!("tid {tid}"));
        let r = std::panic::catch_unwind(|| {
            let mut inj = InjectorPP::new();
            inj.when_called(injectorpp::func!(fn (p_a)(u64) -> u64)).will_execute_raw(injectorpp::func!(fn (p_fake_plain)(u64) -> u64));
            let during = p_a(black_box(1));
            drop(inj);
            let after = p_a(black_box(1));
            (during, after)
        });
        // ... and the other kind of guard as well
        let r2 = std::panic::catch_unwind(|| {
            let p = InjectorPP::prevent();
            let v = p_a(black_box(1));
            drop(p);
            v
        });
        let _ = tx.send(match (r, r2) {
            (Ok((9001, 12)), Ok(12)) => "ok".to_string(),
            (Ok((9001, 12)), Ok(v)) => format!("under a preventer taken afterwards the function returned {v}, originally 12"),
            (Ok((9001, 12)), Err(_)) => format!("a preventer could not be taken afterwards: {}", crate::worker::last_panic()),
            (Ok(x), _) => format!("wrong values {x:?}"),
            (Err(_), _) => format!("panicked: {}", crate::worker::last_panic()),
        });
    });
    let tid_line = rx.recv_timeout(std::time::Duration::from_secs(5)).unwrap_or_default();
    match rx.recv_timeout(std::time::Duration::from_secs(10)) {
        Ok(s) => {
            o.followup = s;
            let _ = h.join();
        }
        Err(_) => {
            let tid = tid_line.trim_start_matches("tid ").to_string();
            let sc = std::fs::read_to_string(format!("/proc/self/task/{tid}/syscall")).unwrap_or_default();
            o.followup = if sc.starts_with("202 ") { "deadlock".into() } else { "timeout".into() };
            o.followup_detail = format!("follow-up thread {tid} did not finish in 10 s; its syscall state: {}", sc.trim());
        }
    }
    o
}

pub fn strategy() -> impl Strategy<Value = PanicCase> {
    let step = prop_oneof![
        3 => (0u8..3, prop::option::weighted(0.6, 0u8..4)).prop_map(|(t, times)| PStep::Install { t, times }),
        3 => (0u8..3).prop_map(|t| PStep::Call { t }),
    ];
    let src = prop_oneof![
        2 => Just(Source::User),
        2 => Just(Source::FakeRejectsArguments),
        2 => Just(Source::OverCalled),
        1 => Just(Source::RefusedSignature),
        1 => Just(Source::RefusedNull),
        1 => Just(Source::RefusedBooleanOnNonBool),
        1 => Just(Source::RefusedUncheckedMix),
        1 => Just(Source::RefusedAsyncOutput),
        1 => Just(Source::AllocationFailure),
        1 => Just(Source::MprotectFailure),
        2 => Just(Source::MprotectFailurePersistent),
        2 => Just(Source::MprotectFailureSecondPage),
    ];
    let life = (prop::collection::vec(step, 0..=7), prop::option::weighted(0.85, (0u8..=7, src, prop::bool::weighted(0.35))), prop::bool::weighted(0.1)).prop_map(|(steps, pa, in_teardown)| {
        let n = steps.len() as u8;
        PLife { steps, panic_at: pa.map(|(p, s, c)| (p.min(n), s, c)), in_teardown }
    });
    prop::collection::vec(life, 1..=5).prop_map(|lifetimes| PanicCase { lifetimes })
}

pub fn judge(rec: &mut Recorder, c: &PanicCase, ex: Exec, _hello: &Value) -> Result<(), String> {
    let o: PanicObs = match ex {
        Exec::Timeout => {
            rec.count("watchdog", 1);
            if rec.counters.get("watchdog").copied().unwrap_or(0) > 3 {
                rec.inconclusive.push("worker watchdog expired repeatedly".into());
            }
            return Ok(());
        }
        Exec::Died { signal, code, phase, stderr_tail } => {
            rec.eval(|| json!({"case": c, "outcome": "worker died"}));
            let s = signal.map(signal_name).unwrap_or("exit");
            let what = if signal == Some(6) { "process-abort" } else { "died" };
            return rec.fail(&format!("C05/native/{what}/{s}/{phase}"), format!("worker {what} ({s} code {code:?}) in phase '{phase}' while executing {c:?}; stderr: {stderr_tail}"));
        }
        Exec::Obs(v) => {
            if let Some(e) = v.get("harness_error") {
                rec.inconclusive.push(format!("harness error: {e}"));
                return Ok(());
            }
            match serde_json::from_value(v) {
                Ok(o) => o,
                Err(e) => {
                    rec.inconclusive.push(format!("bad observation: {e}"));
                    return Ok(());
                }
            }
        }
    };
    rec.eval(|| json!({"case": c, "observed": o.lifetimes.iter().map(|l| json!({"panics": l.hook_invocations, "predicted": l.predicted_panics, "escaped": l.escaped, "messages": l.messages})).collect::<Vec<_>>(), "followup": o.followup}));
    let sig = |s: &str| format!("C05/native/{s}");
    for (li, (l, lo)) in c.lifetimes.iter().zip(&o.lifetimes).enumerate() {
        let ctx = |s: String| format!("lifetime {li} {:?}: {s}; messages {:?}; case {c:?}", l.panic_at, lo.messages);
        let srcname = l.panic_at.map(|(_, s, c)| format!("{s:?}{}", if c { "/caught" } else { "" })).unwrap_or_else(|| "none".into());
        if !lo.not_pristine.is_empty() {
            return rec.fail(&sig(&format!("not-restored-after-unwind/{srcname}")), ctx(format!("after the lifetime these functions are not byte-identical to their originals: {:?}", lo.not_pristine)));
        }
        if lo.refused_target_written {
            return rec.fail(&sig(&format!("refused-target-written/{srcname}")), ctx("at the moment the refusal panic was raised the refused target's bytes had already been changed".into()));
        }
        if lo.hook_invocations != lo.predicted_panics {
            let which = if lo.hook_invocations > lo.predicted_panics { "more-panics-than-predicted" } else { "fewer-panics-than-predicted" };
            return rec.fail(&sig(&format!("{which}/{srcname}")), ctx(format!("{} panics were raised, the script model predicts {} (pending expectations: {} satisfied, {} unsatisfied)", lo.hook_invocations, lo.predicted_panics, lo.pending_satisfied, lo.pending_unsatisfied)));
        }
        if lo.escaped != lo.predicted_escape {
            return rec.fail(&sig(&format!("escape-mismatch/{srcname}")), ctx(format!("panic escaped the scope: {}, predicted: {}", lo.escaped, lo.predicted_escape)));
        }
        if let Some(m) = &lo.call_mismatch {
            return rec.fail(&sig("wrong-call-result"), ctx(m.clone()));
        }
        rec.class(&format!("source/{srcname}"));
        if l.in_teardown {
            rec.class("lifetime-inside-tear-down-while-unwinding");
        }
        if lo.source_fired && lo.fakes_installed_at_panic >= 1 {
            rec.nontrivial(&(l.panic_at, lo.fakes_installed_at_panic.min(4), lo.pending_satisfied, lo.pending_unsatisfied));
            rec.class("panic-while-fakes-installed");
        }
    }
    if o.lifetimes.len() == c.lifetimes.len() {
        match o.followup.as_str() {
            "ok" => {}
            "deadlock" => return rec.fail(&sig("guard-not-released"), format!("{}; every lifetime had ended, nothing else holds a guard; case {c:?}", o.followup_detail)),
            "timeout" => rec.inconclusive.push(format!("follow-up did not finish: {}", o.followup_detail)),
            other => return rec.fail(&sig("follow-up-injector-unusable"), format!("after the lifetimes a fresh thread could not use a new injector normally: {other}; case {c:?}")),
        }
    }
    Ok(())
}
