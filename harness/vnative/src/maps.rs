//! /proc/self/maps parsing and executable-memory snapshots.

use crate::interpose::raw_syscall;

#[derive(Clone, Debug, PartialEq, Eq)]
pub struct Map {
    pub lo: u64,
    pub hi: u64,
    pub r: bool,
    pub w: bool,
    pub x: bool,
    pub name: String,
}

pub fn maps() -> Vec<Map> {
    let txt = std::fs::read_to_string("/proc/self/maps").unwrap_or_default();
    let mut v = vec![];
    for l in txt.lines() {
        let mut it = l.split_whitespace();
        let range = it.next().unwrap_or("");
        let perms = it.next().unwrap_or("").as_bytes().to_vec();
        let _off = it.next();
        let _dev = it.next();
        let _ino = it.next();
        let name = it.next().unwrap_or("").to_string();
        if let Some((a, b)) = range.split_once('-') {
            let (lo, hi) = (u64::from_str_radix(a, 16).unwrap_or(0), u64::from_str_radix(b, 16).unwrap_or(0));
            v.push(Map { lo, hi, r: perms.first() == Some(&b'r'), w: perms.get(1) == Some(&b'w'), x: perms.get(2) == Some(&b'x'), name });
        }
    }
    v
}

/// true if every page of [addr, addr+len) is mapped (mincore succeeds)
pub fn readable(addr: usize, len: usize) -> bool {
    let lo = addr & !0xFFF;
    let hi = (addr + len + 0xFFF) & !0xFFF;
    let mut vec = [0u8; 8];
    let pages = (hi - lo) / 4096;
    if pages == 0 || pages > 8 {
        return false;
    }
    unsafe { raw_syscall(27, lo as i64, (hi - lo) as i64, vec.as_mut_ptr() as i64, 0, 0, 0) == 0 }
}

/// Executable mappings coalesced into maximal address ranges (mprotect splits VMAs, so
/// comparison is by address range, never by mapping identity).
pub fn exec_ranges() -> Vec<(u64, u64, String)> {
    let mut out: Vec<(u64, u64, String)> = vec![];
    for m in maps() {
        if !m.x || !m.r || m.name == "[vsyscall]" {
            continue;
        }
        if let Some(last) = out.last_mut() {
            if last.1 == m.lo {
                last.1 = m.hi;
                continue;
            }
        }
        out.push((m.lo, m.hi, m.name.clone()));
    }
    out
}

/// Anonymous executable mappings (what a trampoline is), page granular.
pub fn anon_exec_pages() -> Vec<u64> {
    let mut v = vec![];
    for m in maps() {
        if m.x && m.name.is_empty() {
            let mut p = m.lo;
            while p < m.hi {
                v.push(p);
                p += 4096;
            }
        }
    }
    v
}

#[derive(Clone)]
pub struct Snapshot {
    pub ranges: Vec<(u64, u64, String, Vec<u8>)>,
}

impl Snapshot {
    pub fn take() -> Snapshot {
        let mut ranges = vec![];
        for (lo, hi, name) in exec_ranges() {
            let bytes = unsafe { std::slice::from_raw_parts(lo as *const u8, (hi - lo) as usize).to_vec() };
            ranges.push((lo, hi, name, bytes));
        }
        Snapshot { ranges }
    }

    pub fn total_bytes(&self) -> u64 {
        self.ranges.iter().map(|r| r.1 - r.0).sum()
    }

    fn byte_at(&self, a: u64) -> Option<u8> {
        for (lo, hi, _, b) in &self.ranges {
            if a >= *lo && a < *hi {
                return Some(b[(a - lo) as usize]);
            }
        }
        None
    }

    /// Differences: (address, old, new) for bytes present in both snapshots that differ, plus
    /// page lists that appeared / disappeared.
    pub fn diff(&self, later: &Snapshot) -> Diff {
        let mut d = Diff::default();
        for (lo, hi, _, nb) in &later.ranges {
            // walk overlap with each old range
            let mut covered: Vec<(u64, u64)> = vec![];
            for (olo, ohi, _, ob) in &self.ranges {
                let a = (*lo).max(*olo);
                let b = (*hi).min(*ohi);
                if a < b {
                    covered.push((a, b));
                    let n = &nb[(a - lo) as usize..(b - lo) as usize];
                    let o = &ob[(a - olo) as usize..(b - olo) as usize];
                    if n != o {
                        for i in 0..n.len() {
                            if n[i] != o[i] {
                                d.changed.push((a + i as u64, o[i], n[i]));
                            }
                        }
                    }
                }
            }
            // pages of the later range not covered by any old range = appeared
            let mut p = *lo;
            while p < *hi {
                if !covered.iter().any(|(a, b)| p >= *a && p < *b) {
                    d.appeared.push(p);
                }
                p += 4096;
            }
        }
        for (olo, ohi, _, _) in &self.ranges {
            let mut p = *olo;
            while p < *ohi {
                if later.byte_at(p).is_none() {
                    d.disappeared.push(p);
                }
                p += 4096;
            }
        }
        d
    }
}

#[derive(Default, Debug, Clone)]
pub struct Diff {
    pub changed: Vec<(u64, u8, u8)>,
    pub appeared: Vec<u64>,
    pub disappeared: Vec<u64>,
}
