#!/usr/bin/env python3
"""
Confirms a seeded change produced by a sub-agent, independently of the agent's own worktree:
  1. fresh scratch worktree of /repo HEAD (under /var/tmp), patch applied;
  2. the crate compiles and the repository's pinned suite (nextest, 71 tests) passes with it;
  3. the demonstration fails with the change and passes without it;
then stores patch.diff + demo + meta.json under /verif/seeded/<name>/ and removes the worktree.

usage: tools/verify_seed.py <name> <dir-with patch.diff and demo> <property> [--keep]
"""
import json, os, shutil, subprocess, sys, glob, time

VERIF = os.path.dirname(os.path.dirname(os.path.abspath(__file__)))
TARGET = "/var/tmp/verif-seed-target"


def sh(cmd, cwd=None, env=None, timeout=900):
    try:
        r = subprocess.run(cmd, cwd=cwd, env=env, stdout=subprocess.PIPE, stderr=subprocess.STDOUT, text=True, timeout=timeout)
    except subprocess.TimeoutExpired as e:
        # a hanging suite or demonstration counts as a failing one
        subprocess.run(["pkill", "-9", "-f", "/var/tmp/verif-seed-target/"])
        r = subprocess.CompletedProcess(cmd, 124, (e.stdout or b"").decode("utf-8", "replace") if isinstance(e.stdout, bytes) else (e.stdout or "") + "\nTIMEOUT", None)
    return r.returncode, r.stdout


def main():
    name, src, prop = sys.argv[1], sys.argv[2], sys.argv[3]
    wt = f"/var/tmp/vseed-{name}"
    sh(["git", "-C", "/repo", "worktree", "remove", "--force", wt])
    shutil.rmtree(wt, ignore_errors=True)
    rc, out = sh(["git", "-C", "/repo", "worktree", "add", "-q", "--detach", wt, "HEAD"])
    if rc != 0:
        print("worktree add failed:", out)
        return 2
    env = dict(os.environ, CARGO_TARGET_DIR=TARGET, CARGO_NET_OFFLINE="true")
    result = {"name": name, "property": prop}
    try:
        patch = os.path.join(src, "patch.diff")
        rc, out = sh(["git", "apply", "--3way", patch], cwd=wt)
        if rc != 0:
            rc, out = sh(["git", "apply", patch], cwd=wt)
        if rc != 0:
            rc, out = sh(["patch", "-p1", "--fuzz=3", "-i", patch], cwd=wt)
        if rc != 0:
            print("PATCH DOES NOT APPLY to current HEAD:\n", out[-1500:])
            result["applies"] = False
            print(json.dumps(result))
            return 1
        result["applies"] = True
        # keep the effective patch against current HEAD
        _, eff = sh(["git", "diff", "HEAD", "--", "src"], cwd=wt)
        demos = [f for f in glob.glob(os.path.join(src, "*.rs"))]
        demo_bins = [os.path.basename(d)[:-3] for d in demos]
        # touch sources so cargo (mtime based) rebuilds in the shared target dir
        for root, _d, files in os.walk(os.path.join(wt, "src")):
            for f in files:
                os.utime(os.path.join(root, f))
        flt = "all()"  # (the demonstration is not in the tree yet)
        t0 = time.time()
        rc, out = sh(["cargo", "nextest", "run", "--workspace", "--no-fail-fast", "--offline", "--test-threads", "8", "-E", flt], cwd=wt, env=env)
        tail = out[-600:]
        result["suite_passes_with_change"] = rc == 0
        result["suite_tail"] = [l for l in tail.splitlines() if "Summary" in l or "tests run" in l]
        # the demonstration joins the tree only now (it may fail by not compiling, which would
        # otherwise take the suite's build down with it)
        for d in demos:
            shutil.copy(d, os.path.join(wt, "tests", os.path.basename(d)))
        demo_args = []
        for b in demo_bins:
            demo_args += ["--test", b]
        rc_with, out_with = sh(["cargo", "test", "--offline", "--no-fail-fast"] + demo_args, cwd=wt, env=env)
        result["demo_fails_with_change"] = rc_with != 0
        rcs = []
        for _ in range(2):
            rcs.append(sh(["cargo", "test", "--offline", "--no-fail-fast"] + demo_args, cwd=wt, env=env)[0])
        result["demo_with_change_repeat_rcs"] = rcs
        # without the change
        sh(["git", "checkout", "HEAD", "--", "src"], cwd=wt)
        for root, _d, files in os.walk(os.path.join(wt, "src")):
            for f in files:
                os.utime(os.path.join(root, f))
        rc_wo, out_wo = sh(["cargo", "test", "--offline", "--no-fail-fast"] + demo_args, cwd=wt, env=env)
        result["demo_passes_without_change"] = rc_wo == 0
        result["wall_s"] = round(time.time() - t0)
        ok = result["suite_passes_with_change"] and result["demo_fails_with_change"] and result["demo_passes_without_change"]
        result["confirmed"] = ok
        if not ok:
            print("--- suite tail:\n", tail)
            print("--- demo with change tail:\n", out_with[-1200:])
            print("--- demo without change tail:\n", out_wo[-1200:])
        dst = os.path.join(VERIF, "seeded", name)
        os.makedirs(dst, exist_ok=True)
        open(os.path.join(dst, "patch.diff"), "w").write(eff)
        for d in demos:
            shutil.copy(d, os.path.join(dst, os.path.basename(d)))
        notes = os.path.join(src, "NOTES.md")
        if os.path.exists(notes):
            shutil.copy(notes, os.path.join(dst, "NOTES.md"))
        meta = {
            "property": prop,
            "checks": [prop],
            "origin": "fresh sub-agent given only the property text and a scratch worktree",
            "needs_to_manifest": "see NOTES.md",
            "confirmed_by_me": result,
            "ran": [
                "git worktree add --detach /var/tmp/vseed-<name> HEAD; git apply patch.diff",
                "cargo nextest run --workspace --no-fail-fast --offline -E 'not binary(seed_demo)'   (pinned suite with the change)",
                "cargo test --offline --test seed_demo   (with the change: must fail; x3)",
                "git checkout -- src; cargo test --offline --test seed_demo   (without: must pass)",
            ],
        }
        json.dump(meta, open(os.path.join(dst, "meta.json"), "w"), indent=1)
        print(json.dumps(result, indent=1))
        return 0 if ok else 1
    finally:
        if "--keep" not in sys.argv:
            sh(["git", "-C", "/repo", "worktree", "remove", "--force", wt])
            shutil.rmtree(wt, ignore_errors=True)


if __name__ == "__main__":
    sys.exit(main())
