//! Coverage-guided fuzzing of the pure encoders (thorough tier of C01 / C15 / C16): the input
//! bytes are decoded with `arbitrary::Unstructured` into (variant, function, trampoline, fake,
//! mode) and the *same* decoder oracles as the proptest engines run in-target, so a crash is a
//! semantic violation (or a harness bug), never just a memory-safety signal.  "Refused loudly"
//! panics of the library are caught inside the oracle; known findings are excluded by signature.
#![no_main]
use arbitrary::Unstructured;
use libfuzzer_sys::fuzz_target;
use std::cell::RefCell;
use vcommon::Recorder;
use vsim::s1::*;

thread_local! {
    static RECS: RefCell<Option<[Recorder; 3]>> = const { RefCell::new(None) };
}

fn addr(u: &mut Unstructured) -> arbitrary::Result<u64> {
    // raw 64-bit values with a bias towards chunk extremes
    let raw: u64 = u.arbitrary()?;
    Ok(match u.int_in_range(0..=3u8)? {
        0 => raw,
        1 => raw & 0x0000_7FFF_FFFF_FFFF,
        2 => raw | 0xFFFF_0000_0000_0000,
        _ => raw & 0xFFFF_FFFF,
    })
}

fuzz_target!(|data: &[u8]| {
    let mut u = Unstructured::new(data);
    let go = |u: &mut Unstructured| -> arbitrary::Result<Option<String>> {
        let variant = u.int_in_range(0..=3u8)?;
        let mode = match u.int_in_range(0..=3u8)? {
            0 | 1 => Mode::Fn,
            2 => Mode::Bool(true),
            _ => Mode::Bool(false),
        };
        let salt: u64 = u.arbitrary()?;
        RECS.with(|r| {
            let mut r = r.borrow_mut();
            if r.is_none() {
                quiet_panics();
                let mut recs = [Recorder::new("C15", "fuzz-encoders", "fuzz"), Recorder::new("C16", "fuzz-encoders", "fuzz"), Recorder::new("C01", "fuzz-encoders", "fuzz")];
                // frozen: nothing is counted in-target (libFuzzer reports executions and corpus);
                // known findings are still excluded by signature
                for r in recs.iter_mut() {
                    r.freeze();
                }
                *r = Some(recs);
            }
            let recs = r.as_mut().unwrap();
            let res = match variant {
                0 | 1 => {
                    let func = (addr(u)? & 0x000F_FFFF_FFFF_FFFC).max(0x1000);
                    let disp: i64 = match u.int_in_range(0..=2u8)? {
                        0 => (u.arbitrary::<i32>()? as i64) & !3,
                        1 => ((1i64 << 27) + u.int_in_range(-64i64..=64)? * 4) * if u.arbitrary()? { 1 } else { -1 },
                        _ => (u.arbitrary::<i64>()? >> u.int_in_range(20..=40u32)?) & !3,
                    };
                    let jit = separate(func, func.wrapping_add(disp as u64).max(0x1000));
                    let c = A64Case { macos: variant == 1, func, jit, fake: addr(u)?.max(1), mode, salt };
                    // the macOS long form reaches +/-4 GiB only
                    if c.macos && (c.jit.wrapping_sub(c.func) as i64).abs() >= (1i64 << 32) - (1 << 13) {
                        return Ok(None);
                    }
                    a64_check(&mut recs[0], &c).err().map(|m| format!("{m} :: {c:?}"))
                }
                2 => {
                    let base = (u.arbitrary::<u32>()? & !3).clamp(8, 0xFFFF_FFE0);
                    let entry = base | [0u32, 1, 3][u.int_in_range(0..=2usize)?];
                    let c = ArmCase { entry, fake: u.arbitrary::<u32>()?.max(2), mode, salt };
                    arm_check(&mut recs[1], &c).err().map(|m| format!("{m} :: {c:?}"))
                }
                _ => {
                    let func = (addr(u)? & 0x7FFF_FFFF_FFFF_FFFF).max(0x1000);
                    let jd: i64 = match u.int_in_range(0..=2u8)? {
                        0 => u.arbitrary::<i32>()? as i64 >> 4,
                        1 => [i32::MAX as i64, i32::MIN as i64][u.int_in_range(0..=1usize)?] + u.int_in_range(-8i64..=8)?,
                        _ => u.arbitrary::<i64>()? >> u.int_in_range(16..=40u32)?,
                    };
                    let jit = separate(func, (func.wrapping_add(5).wrapping_add(jd as u64) & 0x7FFF_FFFF_FFFF_FFFF).max(0x1000));
                    let fd: i64 = match u.int_in_range(0..=2u8)? {
                        0 => u.arbitrary::<i32>()? as i64,
                        1 => [i32::MAX as i64, i32::MIN as i64][u.int_in_range(0..=1usize)?] + u.int_in_range(-8i64..=8)?,
                        _ => u.arbitrary::<i64>()? >> u.int_in_range(0..=30u32)?,
                    };
                    let c = X86Case { func, jit, fake: jit.wrapping_add(5).wrapping_add(fd as u64).max(1), mode, salt };
                    x86_check(&mut recs[2], "C01", &c).err().map(|m| format!("{m} :: {c:?}"))
                }
            };
            Ok(res)
        })
    };
    if let Ok(Some(msg)) = go(&mut u) {
        eprintln!("FUZZ-VIOLATION {msg}");
        std::process::abort();
    }
});
