//! A stand-in for the `libc` crate, used only by the S2 simulation builds of vsim: the
//! *unmodified* `src/injector_core/common.rs` is compiled against it (`libc = { package =
//! "simlibc" }`), so its allocator loop, `PatchGuard::drop`, `patch_function`,
//! `inject_asm_code` and `clear_cache` run for real while the *address-space layout* they see is
//! a generated model.
//!
//! Memory is real where the library copies bytes (a lazily committed reservation the harness
//! owns), so the copies in common.rs are genuine; which pages count as "occupied", what an
//! occupied hint returns, and whether `mprotect` fails are the model's decisions.
#![allow(non_camel_case_types, non_upper_case_globals)]

// every constant and type of the real crate (so that a tree that starts using another flag or
// errno value still builds here); the memory-management *functions* below shadow the real ones
pub use reallibc::*;

/// macOS-only flag the crate names under cfg(target_os = "macos") (the macOS variants are compiled
/// on this host with the cfg rewritten)
pub const MAP_JIT: c_int = 0x800;

fn set_errno(e: c_int) {
    unsafe { *reallibc::__errno_location() = e };
}

pub unsafe fn mmap(addr: *mut c_void, len: size_t, prot: c_int, flags: c_int, fd: c_int, off: off_t) -> *mut c_void {
    model::with(|m| m.mmap(addr as u64, len, prot, flags, fd, off)) as *mut c_void
}
pub unsafe fn munmap(addr: *mut c_void, len: size_t) -> c_int {
    model::with(|m| m.munmap(addr as u64, len))
}
pub unsafe fn mprotect(addr: *mut c_void, len: size_t, prot: c_int) -> c_int {
    model::with(|m| m.mprotect(addr as u64, len, prot))
}
pub unsafe fn sysconf(name: c_int) -> c_long {
    if name == _SC_PAGESIZE {
        model::with(|m| m.page as c_long)
    } else {
        -1
    }
}

pub mod model {
    use std::cell::RefCell;
    use std::collections::{BTreeMap, BTreeSet};

    pub const FAILED: u64 = !0u64;

    #[derive(Clone, Debug, PartialEq, Eq)]
    pub enum Ev {
        Mmap { hint: u64, len: usize, prot: i32, ret: u64 },
        Munmap { addr: u64, len: usize, ret: i32 },
        Mprotect { addr: u64, len: usize, prot: i32, ret: i32 },
        /// `__clear_cache(start, end)` with a copy of the range at call time
        Flush { start: u64, end: u64, bytes: Vec<u8> },
    }

    /// What an *occupied* (or null) hint yields.
    #[derive(Clone, Copy, Debug, PartialEq, Eq)]
    pub enum Fallback {
        /// like Linux: the kernel picks some other address (here: a page of the far pool)
        Far,
        /// adversarial: another page *inside* the modelled region, `delta` pages away (if free)
        Near(i64),
        /// the call fails
        Fail,
    }

    pub struct Model {
        pub page: u64,
        /// real, readable+writable reservation that stands for the neighbourhood of the target
        pub base: u64,
        pub size: u64,
        /// real far pool (pages handed out by the `Far` fallback)
        pub far_base: u64,
        pub far_pages: u64,
        far_used: BTreeSet<u64>,
        /// pages of the reservation the model treats as free for new mappings
        pub free: BTreeSet<u64>,
        /// if true every page not listed in `occupied` is free (sparse layouts)
        pub default_free: bool,
        pub occupied: BTreeSet<u64>,
        pub fallback: Fallback,
        pub fail_mprotect_at: Option<u64>,
        pub mprotect_calls: u64,
        /// live mappings handed to the library: addr -> len
        pub live: BTreeMap<u64, usize>,
        /// pages currently writable (after a successful mprotect with PROT_WRITE or a fresh RWX map)
        pub writable: BTreeSet<u64>,
        pub log: Vec<Ev>,
        pub double_unmaps: u64,
        pub foreign_unmaps: u64,
        /// MAP_FIXED mappings placed over memory the library did not own
        pub clobbered: u64,
        pub calls: u64,
        /// consecutive mmap calls without an mprotect in between
        pub mmap_run: u64,
    }

    thread_local! {
        static MODEL: RefCell<Option<Model>> = const { RefCell::new(None) };
    }

    pub fn install(m: Model) {
        MODEL.with(|c| *c.borrow_mut() = Some(m));
    }
    pub fn take() -> Option<Model> {
        MODEL.with(|c| c.borrow_mut().take())
    }
    pub fn with<R>(f: impl FnOnce(&mut Model) -> R) -> R {
        MODEL.with(|c| {
            let mut b = c.borrow_mut();
            let m = b.as_mut().expect("simlibc: no model installed on this thread");
            f(m)
        })
    }
    pub fn is_installed() -> bool {
        MODEL.with(|c| c.borrow().is_some())
    }

    impl Model {
        pub fn new(base: u64, size: u64, far_base: u64, far_pages: u64) -> Self {
            Model {
                page: 4096,
                base,
                size,
                far_base,
                far_pages,
                far_used: BTreeSet::new(),
                free: BTreeSet::new(),
                default_free: true,
                occupied: BTreeSet::new(),
                fallback: Fallback::Far,
                fail_mprotect_at: None,
                mprotect_calls: 0,
                live: BTreeMap::new(),
                writable: BTreeSet::new(),
                log: Vec::new(),
                double_unmaps: 0,
                foreign_unmaps: 0,
                clobbered: 0,
                calls: 0,
                mmap_run: 0,
            }
        }

        pub fn in_region(&self, a: u64) -> bool {
            a >= self.base && a < self.base + self.size
        }

        fn page_free(&self, p: u64) -> bool {
            if !self.in_region(p) || self.live.contains_key(&p) {
                return false;
            }
            if self.default_free {
                !self.occupied.contains(&p)
            } else {
                self.free.contains(&p)
            }
        }

        fn grant(&mut self, p: u64, len: usize) -> u64 {
            self.live.insert(p, len);
            self.writable.insert(p);
            // a fresh anonymous mapping reads as zeros
            unsafe { std::ptr::write_bytes(p as *mut u8, 0, 64) };
            p
        }

        fn far(&mut self, len: usize) -> u64 {
            for i in 0..self.far_pages {
                let p = self.far_base + i * self.page;
                if !self.far_used.contains(&p) {
                    self.far_used.insert(p);
                    self.live.insert(p, len);
                    self.writable.insert(p);
                    unsafe { std::ptr::write_bytes(p as *mut u8, 0, 64) };
                    return p;
                }
            }
            FAILED
        }

        pub fn mmap(&mut self, hint: u64, len: usize, prot: i32, flags: i32, _fd: i32, _off: i64) -> u64 {
            self.calls += 1;
            self.mmap_run += 1;
            if self.mmap_run > 1_000_000 {
                // one probe per page of the window is 65 537: this search does not end
                panic!("placement search does not terminate: {} consecutive mmap probes", self.mmap_run);
            }
            // Linux rounds an unaligned hint down to a page boundary (calibrated by vnative
            // against the running kernel; the model follows it).
            let p = hint & !(self.page - 1);
            let noreplace = flags & 0x100000 != 0;
            let fixed = flags & 0x10 != 0;
            let ret = if len == 0 || len as u64 > self.page {
                super::set_errno(super::ENOMEM);
                FAILED
            } else if hint != 0 && p != 0 && self.page_free(p) {
                self.grant(p, len)
            } else if noreplace {
                // MAP_FIXED_NOREPLACE: an occupied address is refused, never relocated
                super::set_errno(super::EEXIST);
                FAILED
            } else if fixed && hint != 0 && self.in_region(p) && hint % self.page == 0 {
                // MAP_FIXED replaces whatever is there
                if !self.live.contains_key(&p) {
                    self.clobbered += 1;
                }
                self.grant(p, len)
            } else {
                match self.fallback {
                    Fallback::Far => self.far(len),
                    Fallback::Fail => FAILED,
                    Fallback::Near(d) => {
                        let q = (p as i64).wrapping_add(d.wrapping_mul(self.page as i64)) as u64;
                        if self.page_free(q) {
                            self.grant(q, len)
                        } else {
                            self.far(len)
                        }
                    }
                }
            };
            if self.log.len() < 64 || (ret != FAILED && self.in_region(ret)) {
                // (a full-window search is 65 537 calls: keep the log bounded but never drop
                // a successful mapping)
                self.log.push(Ev::Mmap { hint, len, prot, ret });
            }
            ret
        }

        pub fn munmap(&mut self, addr: u64, len: usize) -> i32 {
            self.calls += 1;
            let ret = match self.live.get(&addr).copied() {
                Some(l) => {
                    // the kernel unmaps whole pages; a shorter length still releases the page
                    let _ = l;
                    if len == 0 {
                        -1
                    } else {
                        self.live.remove(&addr);
                        self.writable.remove(&addr);
                        self.far_used.remove(&addr);
                        0
                    }
                }
                None => {
                    if self.in_region(addr) || (addr >= self.far_base && addr < self.far_base + self.far_pages * self.page) {
                        self.double_unmaps += 1;
                    } else {
                        self.foreign_unmaps += 1;
                    }
                    if len == 0 { -1 } else { 0 }
                }
            };
            if self.log.len() < 256 {
                self.log.push(Ev::Munmap { addr, len, ret });
            }
            ret
        }

        pub fn mprotect(&mut self, addr: u64, len: usize, prot: i32) -> i32 {
            self.calls += 1;
            self.mmap_run = 0;
            self.mprotect_calls += 1;
            let fail = self.fail_mprotect_at == Some(self.mprotect_calls) || addr % self.page != 0;
            let ret = if fail { -1 } else { 0 };
            if !fail {
                let mut p = addr;
                let end = addr + ((len as u64 + self.page - 1) & !(self.page - 1));
                while p < end {
                    if prot & super::PROT_WRITE != 0 {
                        self.writable.insert(p);
                    } else {
                        self.writable.remove(&p);
                    }
                    p += self.page;
                }
            }
            self.log.push(Ev::Mprotect { addr, len, prot, ret });
            ret
        }

        pub fn flush(&mut self, start: u64, end: u64) {
            let n = end.saturating_sub(start).min(256) as usize;
            let bytes = if n > 0 && (self.in_region(start) || (start >= self.far_base && start < self.far_base + self.far_pages * self.page)) {
                unsafe { std::slice::from_raw_parts(start as *const u8, n).to_vec() }
            } else {
                vec![]
            };
            self.log.push(Ev::Flush { start, end, bytes });
        }
    }
}
