"""Engine G, part 2: a generated family of function-pointer types, compiled against the current
tree, all ordered pairs driven through every macro form (C09), forced boolean over every member
(C10), async output pairs, and the homonym-nominal-type probe.  Imported by vgen.py."""
import json
import os
import random
import subprocess


class Ty:
    def __init__(self, kind, *a):
        self.kind, self.a = kind, a

    def key(self):
        return render_ty(self)


PRIMS = ["bool", "u8", "i8", "u16", "i32", "u32", "i64", "u64", "usize", "f32", "f64", "char"]
NAMED = ["S1", "S2", "ma::Cfg", "mb::Cfg"]


def render_ty(t, lifetimes=None, in_ret=False):
    """`in_ret`: the type sits in a return position (at any depth): its references are written
    `&'static` so that every generated signature is well-formed without lifetime elision rules."""
    k, a = t.kind, t.a
    if in_ret and lifetimes is None:
        st = "'static "
        if k == "ref":
            return "&" + st + ("mut " if a[1] else "") + render_ty(a[0], None, True)
        if k == "str":
            return "&" + st + "str"
        if k == "slice":
            return "&" + st + "[" + render_ty(a[0], None, True) + "]"
        if k == "dynfn":
            return "&" + st + "(dyn Fn() -> " + render_ty(a[0], None, True) + " + 'static)"
        if k == "ptr":
            return "*" + ("mut " if a[1] else "const ") + render_ty(a[0], None, True)
        if k == "array":
            return "[" + render_ty(a[0], None, True) + "; " + str(a[1]) + "]"
        if k == "tuple":
            inner = ", ".join(render_ty(x, None, True) for x in a[0])
            return "(" + inner + (",)" if len(a[0]) == 1 else ")")
        if k == "opt":
            return "Option<" + render_ty(a[0], None, True) + ">"
        if k == "fn":
            return render_sig(a[0])
    if k == "prim":
        return a[0]
    if k == "unit":
        return "()"
    if k == "ref":
        lt = ""
        if lifetimes is not None:
            lt = lifetimes.pop(0) if lifetimes else ""
        return "&" + lt + ("mut " if a[1] else "") + render_ty(a[0], lifetimes)
    if k == "ptr":
        return "*" + ("mut " if a[1] else "const ") + render_ty(a[0], lifetimes)
    if k == "str":
        lt = ""
        if lifetimes is not None:
            lt = lifetimes.pop(0) if lifetimes else ""
        return "&" + lt + "str"
    if k == "slice":
        lt = ""
        if lifetimes is not None:
            lt = lifetimes.pop(0) if lifetimes else ""
        return "&" + lt + "[" + render_ty(a[0], lifetimes) + "]"
    if k == "array":
        return "[" + render_ty(a[0], lifetimes) + "; " + str(a[1]) + "]"
    if k == "tuple":
        inner = ", ".join(render_ty(x, lifetimes) for x in a[0])
        return "(" + inner + (",)" if len(a[0]) == 1 else ")")
    if k == "opt":
        return "Option<" + render_ty(a[0], lifetimes) + ">"
    if k == "named":
        return a[0]
    if k == "fn":
        return render_sig(a[0])
    if k == "dynfn":
        lt = ""
        if lifetimes is not None:
            lt = lifetimes.pop(0) if lifetimes else ""
        # (the closure's result is a return position: nothing to borrow from, so `'static`)
        return "&" + lt + "dyn Fn() -> " + render_ty(a[0], None, True)
    raise ValueError(k)


def render_sig(s, lifetimes=None):
    out = ""
    if s["unsafe"]:
        out += "unsafe "
    if s["abi"] == 1:
        out += 'extern "C" '
    elif s["abi"] == 2:
        out += 'extern "system" '
    out += "fn(" + ", ".join(render_ty(p, lifetimes) for p in s["params"]) + ")"
    if s["ret"].kind != "unit":
        out += " -> " + render_ty(s["ret"], lifetimes, True)
    return out


def count_refs(t):
    k, a = t.kind, t.a
    if k in ("ref",):
        return 1 + count_refs(a[0])
    if k in ("str",):
        return 1
    if k in ("slice", "dynfn"):
        return 1 + count_refs(a[0])
    if k in ("ptr", "array", "opt"):
        return count_refs(a[0])
    if k == "tuple":
        return sum(count_refs(x) for x in a[0])
    return 0


def default_expr(t):
    """a Rust expression of type t (references are 'static via Box::leak)"""
    k, a = t.kind, t.a
    if k == "prim":
        return {"bool": "false", "f32": "0.0f32", "f64": "0.0f64", "char": "'a'"}.get(a[0], "0 as " + a[0])
    if k == "unit":
        return "()"
    if k == "ref":
        return "Box::leak(Box::new(" + default_expr(a[0]) + "))"
    if k == "ptr":
        return "std::ptr::null_mut::<" + render_ty(a[0]) + ">()" + ("" if a[1] else " as *const _")
    if k == "str":
        return '""'
    if k == "slice":
        return "&[]"
    if k == "array":
        return "std::array::from_fn(|_| " + default_expr(a[0]) + ")"
    if k == "tuple":
        inner = ", ".join(default_expr(x) for x in a[0])
        return "(" + inner + ("," if len(a[0]) == 1 else "") + ")"
    if k == "opt":
        return "None"
    if k == "named":
        return a[0] + "::default()"
    if k == "fn":
        s = a[0]
        params = ", ".join(f"_a{i}: {render_ty(p)}" for i, p in enumerate(s["params"]))
        quals = ("unsafe " if s["unsafe"] else "") + ({1: 'extern "C" ', 2: 'extern "system" '}.get(s["abi"], ""))
        ret = "" if s["ret"].kind == "unit" else " -> " + render_ty(s["ret"], None, True)
        return "{ " + quals + "fn d(" + params + ")" + ret + " { " + default_expr(s["ret"]) + " } d as " + render_sig(s) + " }"
    if k == "dynfn":
        return "Box::leak(Box::new(|| " + default_expr(a[0]) + ") as Box<dyn Fn() -> " + render_ty(a[0], None, True) + ">)"
    raise ValueError(k)


def gen_ty(rng, depth=0, allow_fn=True):
    leafs = [("prim", 8), ("str", 1), ("named", 1), ("unit", 1)]
    comps = [("ref", 4), ("ptr", 1), ("slice", 1), ("array", 1), ("tuple", 1), ("opt", 1), ("fn", 1 if allow_fn else 0), ("dynfn", 1)]
    pool = leafs if depth >= 2 or rng.random() < 0.55 else comps
    kinds = [k for k, w in pool for _ in range(w)]
    k = rng.choice(kinds)
    if k == "prim":
        return Ty("prim", rng.choice(PRIMS))
    if k == "str":
        return Ty("str")
    if k == "named":
        return Ty("named", rng.choice(NAMED))
    if k == "unit":
        return Ty("unit")
    if k == "ref":
        return Ty("ref", gen_ty(rng, depth + 1, allow_fn), rng.random() < 0.4)
    if k == "ptr":
        return Ty("ptr", gen_ty(rng, depth + 1, allow_fn), rng.random() < 0.5)
    if k == "slice":
        return Ty("slice", gen_ty(rng, depth + 1, False))
    if k == "array":
        return Ty("array", gen_ty(rng, depth + 1, False), rng.randint(1, 4))
    if k == "tuple":
        return Ty("tuple", [gen_ty(rng, depth + 1, False) for _ in range(rng.randint(1, 2))])
    if k == "opt":
        return Ty("opt", gen_ty(rng, depth + 1, False))
    if k == "fn":
        return Ty("fn", gen_sig(rng, depth + 2, nested=True))
    return Ty("dynfn", gen_ty(rng, depth + 2, False))


def gen_sig(rng, depth=0, nested=False):
    abi = rng.choice([0, 0, 0, 1, 2]) if not nested else rng.choice([0, 0, 1])
    unsafe = rng.random() < 0.35 or (abi != 0 and rng.random() < 0.7)
    n = rng.choice([0, 1, 1, 2, 2, 3, 4, 6]) if not nested else rng.randint(0, 2)
    ret_pool = rng.random()
    if ret_pool < 0.35:
        ret = Ty("prim", "bool")
    elif ret_pool < 0.5:
        ret = Ty("unit")
    else:
        ret = gen_ty(rng, depth + 1)
    return {"unsafe": unsafe, "abi": abi, "params": [gen_ty(rng, depth + 1) for _ in range(n)], "ret": ret}


def mutate_sig(rng, s):
    """one-component variant of s (arity +/-1, one parameter, return type, &<->&mut, unsafety, ABI)"""
    import copy
    t = {"unsafe": s["unsafe"], "abi": s["abi"], "params": list(s["params"]), "ret": s["ret"]}
    choice = rng.choice(["drop", "add", "param", "ret", "mut", "unsafe", "abi"])
    if choice == "drop" and t["params"]:
        t["params"].pop(rng.randrange(len(t["params"])))
    elif choice == "add":
        t["params"].insert(rng.randrange(len(t["params"]) + 1), gen_ty(rng, 1))
    elif choice == "param" and t["params"]:
        t["params"][rng.randrange(len(t["params"]))] = gen_ty(rng, 1)
    elif choice == "ret":
        t["ret"] = gen_ty(rng, 1)
    elif choice == "mut":
        idx = [i for i, p in enumerate(t["params"]) if p.kind in ("ref", "ptr")]
        if idx:
            i = rng.choice(idx)
            p = t["params"][i]
            t["params"][i] = Ty(p.kind, p.a[0], not p.a[1])
    elif choice == "unsafe":
        t["unsafe"] = not t["unsafe"]
    elif choice == "abi":
        t["abi"] = (t["abi"] + rng.choice([1, 2])) % 3
    return t


def build_family(seed, n):
    rng = random.Random(seed)
    fam, seen = [], set()
    # seeds that matter for C10: look-alike return types
    fixed = [
        {"unsafe": False, "abi": 0, "params": [], "ret": Ty("prim", "bool")},
        {"unsafe": False, "abi": 0, "params": [], "ret": Ty("fn", {"unsafe": False, "abi": 0, "params": [], "ret": Ty("prim", "bool")})},
        {"unsafe": False, "abi": 0, "params": [Ty("prim", "u8")], "ret": Ty("dynfn", Ty("prim", "bool"))},
        {"unsafe": False, "abi": 0, "params": [], "ret": Ty("opt", Ty("prim", "bool"))},
        {"unsafe": False, "abi": 0, "params": [], "ret": Ty("ref", Ty("prim", "bool"), False)},
        {"unsafe": True, "abi": 1, "params": [Ty("prim", "u8")], "ret": Ty("prim", "bool")},
        {"unsafe": False, "abi": 0, "params": [Ty("fn", {"unsafe": False, "abi": 0, "params": [], "ret": Ty("prim", "bool")})], "ret": Ty("unit")},
        # a user type that is merely *named* bool
        {"unsafe": False, "abi": 0, "params": [], "ret": Ty("named", "flags::bool")},
        # different nominal types sharing their last path segment
        {"unsafe": False, "abi": 0, "params": [Ty("named", "ma::Cfg")], "ret": Ty("prim", "u8")},
        {"unsafe": False, "abi": 0, "params": [Ty("named", "mb::Cfg")], "ret": Ty("prim", "u8")},
        {"unsafe": False, "abi": 0, "params": [Ty("ref", Ty("named", "ma::Cfg"), False)], "ret": Ty("named", "mb::Cfg")},
        {"unsafe": False, "abi": 0, "params": [Ty("ref", Ty("named", "mb::Cfg"), False)], "ret": Ty("named", "mb::Cfg")},
    ]
    for s in fixed:
        r = render_sig(s)
        if r not in seen:
            seen.add(r)
            fam.append(s)
    while len(fam) < n:
        s = gen_sig(rng)
        cands = [s] + [mutate_sig(rng, s) for _ in range(2)]
        for c in cands:
            r = render_sig(c)
            if r not in seen and len(fam) < n:
                seen.add(r)
                fam.append(c)
    return fam


def forms_for(s):
    """macro forms that can build a FuncPtr for a function item of type s"""
    f = ["generic"]  # func!(f, T)
    if s["abi"] == 0 and not s["unsafe"]:
        f += ["fn", "func_info_fn", "closure"]
    if s["abi"] == 0 and s["unsafe"]:
        f += ["unsafe_fn"]
    if s["abi"] == 1 and s["unsafe"]:
        f += ["unsafe_c"]
    if s["abi"] == 2 and s["unsafe"]:
        f += ["unsafe_system"]
    return f


def form_expr(form, fname, s):
    args = ", ".join(render_ty(p) for p in s["params"])
    ret = "" if s["ret"].kind == "unit" else " -> " + render_ty(s["ret"], None, True)
    if form == "generic":
        return f"injectorpp::func!({fname}, {render_sig(s)})"
    if form == "fn":
        return f"injectorpp::func!(fn ({fname})({args}){ret})"
    if form == "func_info_fn":
        return f"injectorpp::func!(func_info: fn ({fname})({args}){ret})"
    if form == "unsafe_fn":
        return f"injectorpp::func!(unsafe{{}} fn ({fname})({args}){ret})"
    if form == "unsafe_c":
        return f'injectorpp::func!(unsafe{{}} extern "C" fn ({fname})({args}){ret})'
    if form == "unsafe_system":
        return f'injectorpp::func!(func_info: unsafe extern "system" fn ({fname})({args}){ret})'
    if form == "closure":
        params = ", ".join(f"_a{i}: {render_ty(p)}" for i, p in enumerate(s["params"]))
        rt = "()" if s["ret"].kind == "unit" else render_ty(s["ret"], None, True)
        return f"injectorpp::closure!(|{params}| -> {rt} {{ HIT.store(3000, SeqCst); {default_expr(s['ret'])} }}, {render_sig(s)})"
    raise ValueError(form)


def gen_program(fam):
    L = []
    L.append("// generated by /verif/tools/vgen_sig.py")
    L.append("#![allow(unused, improper_ctypes_definitions, clippy::all)]")
    L.append("use injectorpp::interface::injector::*;")
    L.append("use std::sync::atomic::{AtomicU64, Ordering::SeqCst};")
    L.append("static HIT: AtomicU64 = AtomicU64::new(0);")
    L.append("#[derive(Default, Clone, Copy, Debug)] pub struct S1 { a: u64 }")
    L.append("#[derive(Default, Clone, Debug)] pub struct S2 { a: u8, b: String }")
    L.append("pub mod ma { #[derive(Default, Clone, Debug)] pub struct Cfg { pub a: u8 } }")
    L.append("pub mod mb { #[derive(Default, Clone, Debug)] pub struct Cfg { pub a: u64, pub b: u64, pub c: u64 } }")
    L.append("#[allow(non_camel_case_types)] pub mod flags { #[derive(Default, Clone, Debug)] pub struct bool(pub u64, pub u64, pub u64); }")
    tb, rb = [], []
    for i, s in enumerate(fam):
        params = ", ".join(f"_a{k}: {render_ty(p)}" for k, p in enumerate(s["params"]))
        quals = ("unsafe " if s["unsafe"] else "") + ({1: 'extern "C" ', 2: 'extern "system" '}.get(s["abi"], ""))
        ret = "" if s["ret"].kind == "unit" else " -> " + render_ty(s["ret"], None, True)
        for nm, base in (("target", 1000), ("replacement", 2000)):
            L.append(f"#[inline(never)] {quals}fn {nm}_{i}({params}){ret} {{ HIT.store({base + i}, SeqCst); {default_expr(s['ret'])} }}")
        args = ", ".join(default_expr(p) for p in s["params"])
        call = f"target_{i}({args})"
        if s["unsafe"]:
            call = "unsafe { " + call + " }"
        L.append(f"fn call_{i}() -> u64 {{ HIT.store(0, SeqCst); let _ = {call}; HIT.load(SeqCst) }}")
        for form in forms_for(s):
            if form != "closure":
                L.append(f"fn tb_{i}_{form}() -> FuncPtr {{ {form_expr(form, f'target_{i}', s)} }}")
                tb.append((i, form))
            L.append(f"fn rb_{i}_{form}() -> FuncPtr {{ {form_expr(form, f'replacement_{i}', s)} }}")
            rb.append((i, form))
        L.append(f"fn tname_{i}() -> &'static str {{ std::any::type_name::<{render_sig(s)}>() }}")
    L.append("static TB: &[(usize, &str, fn() -> FuncPtr)] = &[" + ", ".join(f'({i}, "{f}", tb_{i}_{f})' for i, f in tb) + "];")
    L.append("static RB: &[(usize, &str, fn() -> FuncPtr)] = &[" + ", ".join(f'({i}, "{f}", rb_{i}_{f})' for i, f in rb) + "];")
    L.append("static CALLS: &[fn() -> u64] = &[" + ", ".join(f"call_{i}" for i in range(len(fam))) + "];")
    L.append("static TNAMES: &[fn() -> &'static str] = &[" + ", ".join(f"tname_{i}" for i in range(len(fam))) + "];")
    outs = [("u32", "7u32"), ("u64", "7u64"), ("bool", "true"), ("String", "String::new()"), ("()", "()"), ("Vec<u8>", "Vec::new()")]
    for k, (ty, val) in enumerate(outs):
        L.append(f"async fn af_{k}() -> {ty} {{ {val} }}")
    L.append("""
fn msg_of(e: Box<dyn std::any::Any + Send>) -> String {
    if let Some(s) = e.downcast_ref::<String>() { s.clone() } else if let Some(s) = e.downcast_ref::<&str>() { s.to_string() } else { String::new() }
}
fn line(kind: &str, i: usize, j: usize, ft: &str, fr: &str, ok: bool, hit: u64, msg: &str) {
    let m: String = msg.chars().map(|c| if c == 9 as char || c == 10 as char { ' ' } else { c }).collect();
    println!("{}{t}{}{t}{}{t}{}{t}{}{t}{}{t}{}{t}{}", kind, i, j, ft, fr, ok, hit, m, t = 9 as char);
}
fn main() {
    std::panic::set_hook(Box::new(|_| {}));
    for (i, f) in TNAMES.iter().enumerate() { line("name", i, 0, "", "", true, 0, f()); }
    for (i, ft, tb) in TB.iter() {
        for (j, fr, rb) in RB.iter() {
            let r = std::panic::catch_unwind(|| {
                let mut inj = InjectorPP::new();
                inj.when_called(tb()).will_execute_raw(rb());
                let h = if i == j { CALLS[*i]() } else { 0 };
                drop(inj);
                h
            });
            match r { Ok(h) => line("pair", *i, *j, ft, fr, true, h, ""), Err(e) => line("pair", *i, *j, ft, fr, false, 0, &msg_of(e)) }
        }
        let r = std::panic::catch_unwind(|| { let mut inj = InjectorPP::new(); inj.when_called(tb()).will_return_boolean(true); drop(inj); });
        match r { Ok(()) => line("bool", *i, 0, ft, "", true, 0, ""), Err(e) => line("bool", *i, 0, ft, "", false, 0, &msg_of(e)) }
    }""")
    for k, (ty, val) in enumerate(outs):
        for l, (ty2, val2) in enumerate(outs):
            L.append(f'    {{ let r = std::panic::catch_unwind(|| {{ let mut inj = InjectorPP::new(); inj.when_called_async(injectorpp::async_func!(af_{k}(), {ty})).will_return_async(injectorpp::async_return!({val2}, {ty2})); drop(inj); }}); match r {{ Ok(()) => line("async", {k}, {l}, "", "", true, 0, ""), Err(e) => line("async", {k}, {l}, "", "", false, 0, &msg_of(e)) }} }}')
    L.append("""    {
        let a = { #[derive(Default)] struct S(u8); #[inline(never)] fn t(_s: S) -> u8 { 1 } injectorpp::func!(t, fn(S) -> u8) };
        let b = { #[derive(Default)] struct S(u64, u64, u64); #[inline(never)] fn r(_s: S) -> u8 { 2 } injectorpp::func!(r, fn(S) -> u8) };
        let r = std::panic::catch_unwind(move || { let mut inj = InjectorPP::new(); inj.when_called(a).will_execute_raw(b); drop(inj); });
        match r { Ok(()) => line("homonym", 0, 0, "", "", true, 0, ""), Err(e) => line("homonym", 0, 0, "", "", false, 0, &msg_of(e)) }
    }
}""")
    return "\n".join(L) + "\n"
