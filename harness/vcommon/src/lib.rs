//! Shared plumbing for every engine: seeds, tiers, the proptest driver wrapper, the evidence
//! recorder ("partial" result of one engine run, merged by /verif/check), known findings.
//!
//! Rules kept here once so every check obeys them:
//!  * a run is a pure function of the tree and VERIF_SEED (no wall clock in properties, no own RNG);
//!  * counting stops at the first failure (proptest re-runs the closure while shrinking);
//!  * a known finding is excluded *inside* the oracle (counted), so the search continues behind it;
//!  * checks never write known_findings.txt.

use proptest::strategy::{Strategy, ValueTree};
use proptest::test_runner::{Config, RngAlgorithm, TestCaseError, TestError, TestRng, TestRunner};
use serde_json::{json, Value};
use std::collections::{BTreeMap, HashSet};
use std::hash::{Hash, Hasher};
use std::path::{Path, PathBuf};
use std::time::Instant;

pub use proptest;
pub use serde_json;

// ------------------------------------------------------------------------------------------------
// environment

#[derive(Clone, Copy, PartialEq, Eq, Debug)]
pub enum Tier {
    Quick,
    Thorough,
}

pub fn tier() -> Tier {
    match std::env::var("VERIF_TIER").as_deref() {
        Ok("thorough") => Tier::Thorough,
        _ => Tier::Quick,
    }
}

pub fn seed() -> u64 {
    std::env::var("VERIF_SEED")
        .ok()
        .and_then(|s| s.trim().parse::<i128>().ok())
        .map(|v| v as u64)
        .unwrap_or(1)
}

/// `q` cases in the quick tier, `t` in the thorough one; VERIF_SCALE (float) scales both.
pub fn cases(q: u64, t: u64) -> u64 {
    let base = if tier() == Tier::Thorough { t } else { q };
    let scale = std::env::var("VERIF_SCALE")
        .ok()
        .and_then(|s| s.parse::<f64>().ok())
        .unwrap_or(1.0);
    ((base as f64) * scale).max(1.0) as u64
}

pub fn verif_dir() -> PathBuf {
    PathBuf::from(std::env::var("VERIF_DIR").unwrap_or_else(|_| "/verif".into()))
}

pub fn repo_dir() -> PathBuf {
    PathBuf::from(std::env::var("VERIF_REPO").unwrap_or_else(|_| "/repo".into()))
}

/// splitmix64: derive independent sub-seeds from (seed, stream) without an RNG of our own in
/// the properties (only used to seed proptest's RNG).
pub fn mix(seed: u64, stream: u64) -> u64 {
    let mut z = seed
        .wrapping_add(0x9E3779B97F4A7C15u64.wrapping_mul(stream.wrapping_add(1)))
        .wrapping_add(0x9E3779B97F4A7C15);
    z = (z ^ (z >> 30)).wrapping_mul(0xBF58476D1CE4E5B9);
    z = (z ^ (z >> 27)).wrapping_mul(0x94D049BB133111EB);
    z ^ (z >> 31)
}

pub fn hash_of<T: Hash>(t: &T) -> u64 {
    let mut h = Fnv(0xcbf29ce484222325);
    t.hash(&mut h);
    h.0
}

struct Fnv(u64);
impl Hasher for Fnv {
    fn finish(&self) -> u64 {
        self.0
    }
    fn write(&mut self, bytes: &[u8]) {
        for b in bytes {
            self.0 ^= *b as u64;
            self.0 = self.0.wrapping_mul(0x100000001b3);
        }
    }
}

// ------------------------------------------------------------------------------------------------
// known findings

#[derive(Clone, Debug)]
pub struct Known {
    pub property: String,
    pub signature: String,
    pub what: String,
}

/// Parses /verif/known_findings.txt.  Lines:
///   `known: property=<id> signature=<sig> <what fails>`   -> excluded + reported as KNOWN-FINDING
///   `fixed: property=<id> <commit> <what failed>`          -> suppresses nothing (ignored here)
pub fn known_findings(property: &str) -> Vec<Known> {
    let p = verif_dir().join("known_findings.txt");
    let txt = std::fs::read_to_string(p).unwrap_or_default();
    let mut out = vec![];
    for line in txt.lines() {
        let line = line.trim();
        if let Some(rest) = line.strip_prefix("known:") {
            let mut it = rest.trim().splitn(3, ' ');
            let prop = it.next().unwrap_or("").strip_prefix("property=").unwrap_or("");
            let sig = it.next().unwrap_or("").strip_prefix("signature=").unwrap_or("");
            let what = it.next().unwrap_or("");
            if prop == property && !sig.is_empty() {
                out.push(Known {
                    property: prop.into(),
                    signature: sig.into(),
                    what: what.into(),
                });
            }
        }
    }
    out
}

// ------------------------------------------------------------------------------------------------
// recorder

#[derive(Clone, Debug)]
pub struct Violation {
    pub signature: String,
    pub message: String,
    pub case: Value,
    pub replay: Option<String>,
}

pub struct Recorder {
    pub property: String,
    pub engine: String,
    pub rule: String,
    pub evaluations: u64,
    nontrivial: HashSet<u64>,
    pub classes: BTreeMap<String, u64>,
    pub samples: Vec<Value>,
    pub counters: BTreeMap<String, u64>,
    pub violations: Vec<Violation>,
    pub known_hits: BTreeMap<String, u64>,
    pub notes: Vec<String>,
    pub assumptions: Vec<String>,
    pub inconclusive: Vec<String>,
    pub exhaustive_parts: Vec<String>,
    known: Vec<Known>,
    frozen: bool,
    start: Instant,
    sample_next: u64,
}

impl Recorder {
    pub fn new(property: &str, engine: &str, rule: &str) -> Self {
        Recorder {
            property: property.into(),
            engine: engine.into(),
            rule: rule.into(),
            evaluations: 0,
            nontrivial: HashSet::new(),
            classes: BTreeMap::new(),
            samples: vec![],
            counters: BTreeMap::new(),
            violations: vec![],
            known_hits: BTreeMap::new(),
            notes: vec![],
            assumptions: vec![],
            inconclusive: vec![],
            exhaustive_parts: vec![],
            known: known_findings(property),
            frozen: false,
            start: Instant::now(),
            sample_next: 1,
        }
    }

    pub fn frozen(&self) -> bool {
        self.frozen
    }
    pub fn freeze(&mut self) {
        self.frozen = true;
    }
    pub fn unfreeze(&mut self) {
        self.frozen = false;
    }

    /// One executed case.  `sample` is only evaluated when this case is kept as a sample
    /// (cases number 1, 2, 4, 8, ... so that early, middle and late cases are all represented).
    pub fn eval(&mut self, sample: impl FnOnce() -> Value) {
        if self.frozen {
            return;
        }
        self.evaluations += 1;
        if self.evaluations == self.sample_next && self.samples.len() < 14 {
            self.samples.push(sample());
            self.sample_next *= 2;
        }
    }

    pub fn class(&mut self, c: &str) {
        if self.frozen {
            return;
        }
        *self.classes.entry(c.to_string()).or_insert(0) += 1;
    }

    pub fn count(&mut self, c: &str, n: u64) {
        if self.frozen {
            return;
        }
        *self.counters.entry(c.to_string()).or_insert(0) += n;
    }

    pub fn nontrivial<K: Hash>(&mut self, key: &K) {
        if self.frozen {
            return;
        }
        let h = hash_of(&(self.engine.as_str(), hash_of(key)));
        self.nontrivial.insert(h);
    }

    pub fn nontrivial_count(&self) -> u64 {
        self.nontrivial.len() as u64
    }

    /// Oracle verdict helper.  Returns Ok(()) when `signature` is a listed known finding (the
    /// case is counted as excluded and the search goes on), Err(message) otherwise.
    pub fn fail(&mut self, signature: &str, message: String) -> Result<(), String> {
        if self.known.iter().any(|k| k.signature == signature) {
            if !self.frozen {
                *self.known_hits.entry(signature.to_string()).or_insert(0) += 1;
            }
            return Ok(());
        }
        Err(format!("[{signature}] {message}"))
    }

    pub fn is_known(&self, signature: &str) -> bool {
        self.known.iter().any(|k| k.signature == signature)
    }

    pub fn known_hit(&mut self, signature: &str) {
        if !self.frozen {
            *self.known_hits.entry(signature.to_string()).or_insert(0) += 1;
        }
    }

    /// Record a violation and write its replay file (under work/replays).
    pub fn violation(&mut self, signature: &str, message: &str, case: Value) {
        let body = json!({
            "property": self.property,
            "engine": self.engine,
            "seed": seed(),
            "signature": signature,
            "message": message,
            "case": case,
        });
        let dir = verif_dir().join("work").join("replays");
        let _ = std::fs::create_dir_all(&dir);
        let h = hash_of(&body.to_string());
        let path = dir.join(format!("{}-{}-{:016x}.json", self.property, self.engine, h));
        let _ = std::fs::write(&path, serde_json::to_string_pretty(&body).unwrap());
        self.violations.push(Violation {
            signature: signature.into(),
            message: message.into(),
            case,
            replay: Some(path.to_string_lossy().into_owned()),
        });
    }

    /// Merge the result of a parallel shard.
    pub fn absorb(&mut self, o: Recorder) {
        self.evaluations += o.evaluations;
        self.nontrivial.extend(o.nontrivial);
        for (k, v) in o.classes {
            *self.classes.entry(k).or_insert(0) += v;
        }
        for (k, v) in o.counters {
            *self.counters.entry(k).or_insert(0) += v;
        }
        for (k, v) in o.known_hits {
            *self.known_hits.entry(k).or_insert(0) += v;
        }
        for s in o.samples {
            if self.samples.len() < 16 {
                self.samples.push(s);
            }
        }
        self.violations.extend(o.violations);
        for n in o.notes {
            if !self.notes.contains(&n) {
                self.notes.push(n);
            }
        }
        for n in o.assumptions {
            if !self.assumptions.contains(&n) {
                self.assumptions.push(n);
            }
        }
        self.inconclusive.extend(o.inconclusive);
        self.exhaustive_parts.extend(o.exhaustive_parts);
    }

    pub fn to_json(&self) -> Value {
        json!({
            "property": self.property,
            "engine": self.engine,
            "rule": self.rule,
            "evaluations": self.evaluations,
            "distinct_nontrivial": self.nontrivial.len(),
            "classes": self.classes,
            "counters": self.counters,
            "samples": self.samples,
            "violations": self.violations.iter().map(|v| json!({
                "signature": v.signature, "message": v.message, "case": v.case, "replay": v.replay
            })).collect::<Vec<_>>(),
            "known_hits": self.known_hits,
            "known_listed": self.known.iter().map(|k| json!({"signature": k.signature, "what": k.what})).collect::<Vec<_>>(),
            "notes": self.notes,
            "assumptions": self.assumptions,
            "inconclusive": self.inconclusive,
            "exhaustive_parts": self.exhaustive_parts,
            "wall_s": self.start.elapsed().as_secs_f64(),
            "seed": seed(),
            "tier": if tier() == Tier::Thorough { "thorough" } else { "quick" },
        })
    }

    /// Write the partial result where /verif/check asked for it (`--out <path>` or VERIF_OUT).
    pub fn finish(&self, out: &Path) -> i32 {
        let _ = std::fs::create_dir_all(out.parent().unwrap_or(Path::new(".")));
        std::fs::write(out, serde_json::to_string_pretty(&self.to_json()).unwrap())
            .expect("write partial");
        if !self.violations.is_empty() {
            1
        } else if !self.inconclusive.is_empty() {
            2
        } else {
            0
        }
    }
}

// ------------------------------------------------------------------------------------------------
// proptest wrapper

pub struct PropOutcome<V> {
    pub failure: Option<(V, String)>,
}

/// Runs `f` over `cases` generated values of `strat`, seeded from (VERIF_SEED, stream).
/// On failure the *shrunk* value and its message are returned; the caller's recorder must be
/// frozen by `f` itself at the first Err (use `guard_case`).
pub fn run_prop<S, F>(stream: u64, cases: u64, strat: S, mut f: F) -> PropOutcome<S::Value>
where
    S: Strategy,
    S::Value: Clone + std::fmt::Debug,
    F: FnMut(&S::Value) -> Result<(), String>,
{
    let mut cfg = Config::default();
    cfg.cases = cases.min(u32::MAX as u64) as u32;
    cfg.failure_persistence = None;
    cfg.max_shrink_iters = std::env::var("VERIF_SHRINK_ITERS")
        .ok()
        .and_then(|s| s.parse().ok())
        .unwrap_or(4000);
    cfg.max_global_rejects = 1_000_000;
    cfg.verbose = 0;
    let s = mix(seed(), stream);
    let mut bytes = [0u8; 32];
    for i in 0..4 {
        bytes[i * 8..i * 8 + 8].copy_from_slice(&mix(s, i as u64).to_le_bytes());
    }
    let rng = TestRng::from_seed(RngAlgorithm::ChaCha, &bytes);
    let mut runner = TestRunner::new_with_rng(cfg, rng);
    let f = std::cell::RefCell::new(&mut f);
    let res = runner.run(&strat, |v| match (f.borrow_mut())(&v) {
        Ok(()) => Ok(()),
        Err(m) => Err(TestCaseError::fail(m)),
    });
    match res {
        Ok(()) => PropOutcome { failure: None },
        Err(TestError::Fail(reason, v)) => PropOutcome {
            failure: Some((v, reason.message().to_string())),
        },
        Err(TestError::Abort(reason)) => PropOutcome {
            failure: None,
        }
        .tap(|_| eprintln!("proptest aborted: {}", reason.message())),
    }
}

trait Tap: Sized {
    fn tap(self, f: impl FnOnce(&Self)) -> Self {
        f(&self);
        self
    }
}
impl<T> Tap for T {}

/// Generate one value from a strategy deterministically (used for enumerated sweeps that still
/// want seed-dependent fillers).
pub fn sample_one<S: Strategy>(stream: u64, strat: &S) -> S::Value {
    let s = mix(seed(), stream);
    let mut bytes = [0u8; 32];
    for i in 0..4 {
        bytes[i * 8..i * 8 + 8].copy_from_slice(&mix(s, i as u64).to_le_bytes());
    }
    let rng = TestRng::from_seed(RngAlgorithm::ChaCha, &bytes);
    let mut runner = TestRunner::new_with_rng(Config::default(), rng);
    strat.new_tree(&mut runner).expect("strategy").current()
}

/// Monotone index map for shrinking-friendly choices: raw in 0..=u16::MAX -> 0..len.
pub fn pick(raw: u16, len: usize) -> usize {
    ((raw as usize) * len) >> 16
}

pub fn out_path() -> PathBuf {
    let mut args = std::env::args();
    while let Some(a) = args.next() {
        if a == "--out" {
            if let Some(p) = args.next() {
                return PathBuf::from(p);
            }
        }
    }
    if let Ok(p) = std::env::var("VERIF_OUT") {
        return PathBuf::from(p);
    }
    verif_dir().join("work").join("partials").join("adhoc.json")
}

pub fn arg_value(name: &str) -> Option<String> {
    let mut args = std::env::args();
    while let Some(a) = args.next() {
        if a == name {
            return args.next();
        }
    }
    None
}

pub fn has_flag(name: &str) -> bool {
    std::env::args().any(|a| a == name)
}
pub mod decoders;
