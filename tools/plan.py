"""Property -> engines table used by /verif/check.  Each engine is one process that writes a
partial result (JSON) which check merges into evidence/<ID>.json."""

VSIM = "{BIN}/vsim"
VNATIVE = "{BIN}/vnative"
VGEN = ["python3-vt", "{VERIF}/tools/vgen.py"]
FUZZ = ["python3", "{VERIF}/tools/fuzz_engine.py"]

NATIVE_NOTE = "Trusts: rustc; the Linux kernel's mmap/mprotect semantics and /proc/self/maps; symbol interposition by the static linker (calibrated at every worker start: a plain install must be seen to call mmap, mprotect and __clear_cache, else exit 2); the x86-64 mini-decoder (cross-checked against llvm-mc in `vsim selftest`). x86-64 Linux only; other OS layers (mach_vm_*, VirtualAlloc/Protect) are not compiled here."

PLAN = {
    "C01": {
        "selftest": True,
        "packages": ["vsim", "vnative", "vsim-noassert"],
        "engines": [
            {"name": "n-place", "argv": [VNATIVE, "place", "--property", "C01"]},
            {"name": "s1-amd64", "argv": [VSIM, "amd64", "--property", "C01", "--modes", "fn,bool"]},
            {"name": "s1-amd64-noassert", "profile": "noassert", "argv": [VSIM, "amd64", "--property", "C01", "--modes", "fn,bool"]},
            {"name": "fuzz-encoders", "thorough_only": True, "argv": FUZZ + ["--property", "C01"]},
        ],
    },
    "C02": {
        "selftest": True,
        "packages": ["vnative", "vsim"],
        "engines": [
            {"name": "n-hist", "argv": [VNATIVE, "hist", "--property", "C02"]},
            {"name": "s2", "argv": [VSIM, "s2", "--property", "C02", "--variants", "arm64,arm,amd64"]},
        ],
    },
    "C03": {
        "packages": ["vnative"],
        "engines": [
            {"name": "n-hist-snap", "argv": [VNATIVE, "hist", "--property", "C03"]},
        ],
    },
    "C04": {
        "packages": ["vnative"],
        "engines": [
            {"name": "n-threads", "argv": [VNATIVE, "threads", "--property", "C04"]},
        ],
    },
    "C05": {
        "packages": ["vnative"],
        "engines": [
            {"name": "n-panics", "argv": [VNATIVE, "panic", "--property", "C05"]},
        ],
    },
    "C06": {
        "packages": ["vnative"],
        "engines": [
            {"name": "n-times", "argv": [VNATIVE, "times", "--property", "C06"]},
            {"name": "g-arms", "argv": VGEN + ["c08", "--property", "C06", "--only-times"]},
        ],
    },
    "C07": {
        "packages": ["vnative", "vnative-noassert"],
        "engines": [
            {"name": "n-times", "argv": [VNATIVE, "times", "--property", "C07"]},
            {"name": "n-times-noassert", "profile": "noassert", "argv": [VNATIVE, "times", "--property", "C07"]},
            {"name": "g-arms", "argv": VGEN + ["c08", "--property", "C07", "--only-times"]},
        ],
    },
    "C11": {
        "selftest": True,
        "packages": ["vnative", "vsim"],
        "engines": [
            {"name": "n-layout", "argv": [VNATIVE, "layout", "--property", "C11"]},
            {"name": "s2", "argv": [VSIM, "s2", "--property", "C11", "--variants", "arm64,arm64,amd64"]},
        ],
    },
    "C08": {
        "packages": [],
        "engines": [
            {"name": "g-arms", "argv": VGEN + ["c08", "--property", "C08"]},
        ],
    },
    "C09": {
        "packages": ["vnative"],
        "engines": [
            {"name": "n-sigstrings", "argv": [VNATIVE, "sig", "--property", "C09"]},
            {"name": "g-sigfamily", "argv": VGEN + ["family", "--property", "C09"]},
            {"name": "g-arms", "argv": VGEN + ["c08", "--property", "C09"]},
        ],
    },
    "C10": {
        "selftest": True,
        "packages": ["vnative", "vsim"],
        "engines": [
            {"name": "n-boolsig", "argv": [VNATIVE, "sig", "--property", "C10"]},
            {"name": "g-sigfamily", "argv": VGEN + ["family", "--property", "C10"]},
            {"name": "n-probe-bool", "argv": [VNATIVE, "probe", "--property", "C10"]},
            {"name": "s1-arm64", "argv": [VSIM, "arm64", "--property", "C10", "--modes", "bool"]},
            {"name": "s1-arm", "argv": [VSIM, "arm", "--property", "C10", "--modes", "bool"]},
            {"name": "s1-amd64", "argv": [VSIM, "amd64", "--property", "C10", "--modes", "bool"]},
        ],
    },
    "C13": {
        "selftest": True,
        "packages": ["vnative", "vsim"],
        "engines": [
            {"name": "n-place", "argv": [VNATIVE, "place", "--property", "C13"]},
            {"name": "n-probe", "argv": [VNATIVE, "probe", "--property", "C13"]},
            {"name": "n-shapes", "argv": [VNATIVE, "shapes", "--property", "C13"]},
            {"name": "s1-arm64", "argv": [VSIM, "arm64", "--property", "C13", "--modes", "fn"]},
        ],
    },
    "C14": {
        "packages": ["vnative"],
        "engines": [
            {"name": "n-async", "argv": [VNATIVE, "async", "--property", "C14"]},
            {"name": "n-place", "argv": [VNATIVE, "place", "--property", "C14", "--only-async"]},
        ],
    },
    "C12": {
        "packages": ["vnative"],
        "engines": [
            {"name": "n-hist-cycles", "argv": [VNATIVE, "hist", "--property", "C12"]},
        ],
    },
    "C17": {
        "selftest": True,
        "packages": ["vnative", "vsim"],
        "engines": [
            {"name": "n-hist-flush", "argv": [VNATIVE, "hist", "--property", "C17"]},
            {"name": "s2", "argv": [VSIM, "s2", "--property", "C17", "--variants", "arm64,arm"]},
        ],
    },
    "C15": {
        "selftest": True,
        "packages": ["vsim", "vsim-noassert"],
        "engines": [
            {"name": "s1-arm64", "argv": [VSIM, "arm64", "--property", "C15", "--modes", "fn,bool"]},
            {"name": "s1-arm64-noassert", "profile": "noassert", "argv": [VSIM, "arm64", "--property", "C15", "--modes", "fn,bool"]},
            {"name": "s2", "argv": [VSIM, "s2", "--property", "C15", "--variants", "arm64"]},
            {"name": "fuzz-encoders", "thorough_only": True, "argv": FUZZ + ["--property", "C15"]},
        ],
    },
    "C16": {
        "selftest": True,
        "packages": ["vsim", "vsim-noassert"],
        "engines": [
            {"name": "s1-arm", "argv": [VSIM, "arm", "--property", "C16", "--modes", "fn,bool"]},
            {"name": "s1-arm-noassert", "profile": "noassert", "argv": [VSIM, "arm", "--property", "C16", "--modes", "fn,bool"]},
            {"name": "s2", "argv": [VSIM, "s2", "--property", "C16", "--variants", "arm"]},
            {"name": "fuzz-encoders", "thorough_only": True, "argv": FUZZ + ["--property", "C16"]},
        ],
    },
}

ENGINES = [
    {"name": "vgen (G)", "path": "/verif/tools/vgen.py", "serves_properties": ["C06", "C08", "C09", "C10"],
     "kind_free_text": "configurations generated as Rust source (one binary per fake! arm parsed from macros.rs at check time; families of function-pointer types), compiled against the current tree with cargo --keep-going --message-format=json, driven by Hypothesis-generated scripts against reference models"},
    {"name": "vnative (N)", "path": "/verif/harness/vnative", "serves_properties": ["C01", "C02", "C03", "C04", "C05", "C10", "C11", "C12", "C13", "C14", "C17"],
     "kind_free_text": "proptest driver + isolated worker process (ASLR off) executing generated cases against the real crate: synthetic code arenas at generated addresses, executable-level interposition of mmap/munmap/mprotect/__clear_cache with fault/layout plans and pause points, executable-memory snapshots, x86-64 mini-decoder, assembly probes"},
    {"name": "vsim (S1/S2)", "path": "/verif/harness/vsim", "serves_properties": ["C01", "C10", "C11", "C13", "C15", "C16", "C17", "C02"],
     "kind_free_text": "the repository's unmodified arch-specific sources compiled on the host (build.rs copy, 3 asserted textual cfg rewrites) against simulated memory; proptest generators + exhaustive sub-sweeps; oracles = independent A64/A32/T32/x86-64 decoders"},
]

NOT_APPLICABLE = {}

META = {
    "C01": {
        "level": "exploration",
        "design_ref": "DESIGN.md §4 C01, §2.1, §2.2",
        "technique": "property-based testing: proptest-generated address placements executed against the real crate in an isolated worker (harness-owned address space: synthetic code arenas, interposer-dictated trampoline page, fake mapped at a chosen displacement) + the real amd64 encoder in simulation over the whole 64-bit space; oracle = independent x86-64 decoder followed by really calling the function",
        "text": "Native: ~2.4*10^3 (quick) / 1.2*10^5 (thorough) generated placements (function below 128 MiB / low 4 GiB / near the image / near libs / mid space, any in-page offset incl. page-straddling entries, trampoline page dictated anywhere in +/-128 MiB, fake at +/-2^31+-k and far, every API flavour, callers on 1-4 extra threads): the written bytes are decoded to the fake's entry and the function is then really called; a worker crash is a verdict. Simulation: 3*10^5 / 2*10^7 cases of the real patch_amd64.rs over all 64-bit addresses incl. the Windows-style long entry, with the rel32 boundary enumerated exhaustively on both hops. Sampling, not proof. The amd64 encoder simulation runs twice: from the ordinary build and from a profile with debug assertions and overflow checks compiled out (what a release build of the crate does).",
        "note": NATIVE_NOTE + " A refusal (panic) that leaves the target untouched satisfies the statement and is counted, not judged.",
    },
    "C02": {
        "level": "exploration",
        "design_ref": "DESIGN.md §4 C02",
        "technique": "stateful property-based testing: proptest-generated install histories (vec of lifetimes x vec of Install/Call steps) interpreted against the real crate; oracle = reference model (per-target stack) while alive + pristine-snapshot round trip after every lifetime",
        "text": "2.4*10^3 (quick) / 1.2*10^5 (thorough) generated histories (~6*10^3 / 3*10^5 lifetimes) over 9 real targets (plain, two instantiations of a generic, bool, libc labs, method) and up to 3 synthetic ones, kinds raw/closure/fake!/boolean/unchecked with repetition on one target, normal and unwinding exits, many consecutive lifetimes per process. While alive every call must return the latest installation's value; after each lifetime the first 32 bytes of every target equal the process-start snapshot and the original value is back. One lifetime in six meets a failing munmap while its injector goes out of scope (the k-th release is refused by the platform): restoration is demanded all the same.",
        "note": NATIVE_NOTE + " Async installs are exercised under C14. Page protections after restoration are not judged (the statement speaks of code bytes and behaviour).",
    },
    "C03": {
        "level": "exploration",
        "design_ref": "DESIGN.md §4 C03",
        "technique": "property-based testing with a history invariant: full snapshots of every readable executable mapping between all steps of generated install histories; diff must lie inside named targets' 16-byte entry slots or injector-created trampoline pages",
        "text": "480 (quick) / 1.6*10^4 (thorough) generated histories with ~6 full executable-memory snapshots each (program text, all shared objects, vdso, arenas, trampolines; ~10 MB per snapshot). Targets sit between live neighbours at +/-16 bytes in synthetic arenas (incl. the last slot of a page), next to another instantiation of the same generic function and next to libc neighbours. Every differing byte between consecutive snapshots must be within 16 bytes of a target named so far or inside a mapping the interposer saw the injector create; after the drop the diff against the first snapshot must be empty; never-named functions are called at every observation point.",
        "note": NATIVE_NOTE,
    },
    "C04": {
        "level": "exploration",
        "design_ref": "DESIGN.md §4 C04",
        "technique": "property-based testing over thread scripts with a harness-perturbed schedule: generated per-thread operation scripts and a generated plan of pause points inside the interposed platform calls (the thread holding the lock waits inside an installation / inside the injector's drop so that a waiting thread will run in the window if the lock lets it); oracle = holder-count invariant + per-holder observed-value invariant + completion",
        "text": "1.6*10^3 (quick) / 2.4*10^4 (thorough) runs of 2..8 real threads with 1..12 operations each (~4*10^4 / 6*10^5 acquisitions, ~10% contended). Measured holders must never exceed one (the measured period is a subset of the true holding period, so an overlap implies a real one), a preventer must see only the original value and injector t only its own fake for the whole period, acquisitions after a panicking holder must succeed, every script must finish. Schedules are sampled with widened windows, not enumerated; a replay re-runs the saved script 50 times.",
        "note": NATIVE_NOTE + " Interleavings that differ only inside the library between two lock operations are not distinguishable by this harness. A run that does not finish is a violation only if every waiter provably sits in futex() while no measured holder exists; otherwise exit 2.",
    },
    "C05": {
        "level": "fault_enumeration",
        "design_ref": "DESIGN.md §4 C05",
        "technique": "property-based fault/crash-point enumeration: generated scripted test bodies with one panic source (12 kinds incl. interposer-injected allocation and mprotect failures: first call, every call on the target's page, only the second page of a page-straddling entry) at every generated position, optionally caught in scope; oracle = script model of the number of panics + pristine bytes after the unwind + hook-time snapshot of the refused target + follow-up thread under a deadline",
        "text": "2.4*10^3 (quick) / 1.2*10^5 (thorough) generated cases of 1..5 consecutive lifetimes (many per process): for every source kind and position the number of panics raised must equal the model's prediction (never two at once: an abort kills the worker and is a verdict), every function is byte-identical after the unwind, the refused target is unwritten at the very moment the panic is raised (snapshot taken in the panic hook), and afterwards a fresh thread creates an injector, installs, calls and drops within a deadline (a futex wait that outlives it is reported as an unreleased guard, any other overrun as inconclusive).",
        "note": NATIVE_NOTE + " Excluded by construction: panics inside extern C/system fakes (abort by language rule) and faults injected during restoration. A failed mprotect strands the trampoline allocated just before it; that leak is outside this statement (and outside C12, which speaks of successful installations) and is only reported in evidence.",
    },
    "C06": {
        "level": "exploration",
        "design_ref": "DESIGN.md §4 C06",
        "technique": "model-based property-based testing: generated (N, matching/non-matching call sequences, split over 1-16 threads, exit path) against fakes built by fake!(..., times: N) with N routed through a static; oracle = order-free reference model of the call budget and the exit verdict",
        "text": "3*10^3 (quick) / 2*10^5 (thorough) generated lifetimes-sequences over 4 fake! call sites in the harness (when+returns+times, returns+times, unit assign+times, when+assign+returns+times); engine G adds every arm of the macro that has `times`. Exactly min(k,N) matching calls return (with the freshly evaluated value), the rest panic at the call, calls failing `when` panic and are not counted, the exit verdict fires iff k != N and not unwinding and names both numbers; with up to 16 concurrent callers the counts are compared order-free. Each case runs in a fresh process.",
        "note": NATIVE_NOTE + " Schedules of concurrent callers are sampled by the OS scheduler, not enumerated; a lost-update bug needs a colliding interleaving to show (the mutation audit's load+yield+store variant is caught; a bare load/store may need the thorough tier).",
    },
    "C07": {
        "level": "exploration",
        "design_ref": "DESIGN.md §4 C07",
        "technique": "metamorphic property-based testing: generated sequences of injector lifetimes evaluating the same fake!(..., times: N) expression; each lifetime (ordinary, or run from tear-down code while the thread unwinds) must behave as if it were the only one in its process (reference model counting from zero); the same relation over every `times` arm of macro_rules! fake found in the tree, each compiled as its own binary and driven through 2-3 generated lifetimes of one call site (Hypothesis)",
        "text": "3*10^3 (quick) / 2*10^5 (thorough) generated sequences of 2..8 lifetimes at one of 4 call sites, any number of calls in each lifetime, N changing between lifetimes, each sequence in a fresh process (so the case is the complete history of the site's static counter).",
        "note": NATIVE_NOTE + " Two installations of the same call site alive in the *same* injector share one static counter by construction; the statement speaks of earlier installations, and only those are generated.",
    },
    "C11": {
        "level": "fault_enumeration",
        "design_ref": "DESIGN.md §4 C11",
        "technique": "property-based fault injection: generated address-space layouts around the target (full / one free page at every offset class incl. the extremes / sparse; occupied hints answered by far fallback, MAP_FAILED or an adversarial in-range page), realised through the interposer's layout model and with the real kernel (PROT_NONE reservation with punched holes); oracle = history invariant over the mmap/munmap log + decoded entry branch + bytes and page protection of a refused target unchanged",
        "text": "1.6*10^3 (quick) / 10^5 (thorough) generated (target, layout, fallback behaviour, realisation) cases incl. targets below 128 MiB (window clipped at zero) and page-aligned targets. Success: the entry decodes to a branch into the single mapping that was kept, every other mapping obtained during the search was given back with its own address and length, and the call reaches the fake. Panic: target untouched, nothing left mapped, nothing unmapped twice. x86-64's rel32 reach exceeds the search window, so finite reach is decided for AArch64 in simulation (s2-arm64 engine when present).",
        "note": NATIVE_NOTE + " That installation succeeds whenever a free page exists is not demanded (refusal rate is reported in evidence only).",
    },
    "C08": {
        "level": "exploration",
        "design_ref": "DESIGN.md §4 C08, §2.3",
        "technique": "generated-source property-based testing: every arm of macro_rules! fake is instantiated from its own matcher, compiled as its own binary against the working tree, and driven by Hypothesis-generated call scripts; oracle = one common reference model parameterised only by the arm's options (exhaustive over arms, random over scripts)",
        "text": "All arms found in the working tree at check time (52 today) x 40 (quick) / 1500 (thorough) generated scripts of 1..12 calls with run-time generated `when` threshold, assign and returns constants and budget N: every arm must compile for a well-typed use (a compile error attributed to the expansion of fake! is a violation), `when` guards the call, a rejected call (by `when` or by the budget) runs neither `assign` nor `returns`, `assign` runs before `returns` is evaluated, `returns` is evaluated exactly once per admitted call with that call's arguments and the constant as set for that call, unit arms return (), `times` is enforced and verified at scope exit naming both numbers; for extern C/system arms a predicted panic is the last call and observed as the abort of the child with its message. A quarter of the scripts run from a destructor while the thread unwinds; a third also install a fake from a second expansion of the same arm on a second function through the same injector (its budget and verdict are its own); concurrent blocks mix calls rejected by `when` with matching ones.",
        "note": "Trusts: rustc + cargo JSON diagnostics (spans[].expansion.macro_decl_name); Hypothesis; my token-tree scanner of macro_rules (an arm shape it does not understand is counted as unsupported, never a violation; a compile error outside the macro expansion is exit 2).",
    },
    "C09": {
        "level": "exploration",
        "design_ref": "DESIGN.md §4 C09",
        "technique": "metamorphic property-based testing: generated function-pointer type structures rendered to signature strings, paired with a one-component grammar mutation (or identical / null / checked x unchecked), through the public FuncPtr::new + will_execute_raw / will_execute path; oracle derived from the generated structure + interposer (refusal before anything is modified)",
        "text": "String level (public FuncPtr::new API): 1.6*10^4 (quick) / 8*10^5 (thorough) generated pairs: identical pairs must be accepted and redirect; pairs differing in arity, one parameter, return type, reference mutability, unsafety or ABI, null pointers and checked x unchecked mixes must panic with `Signature mismatch` / `Pointer must not be null`, with zero interposed mmap/mprotect calls and no byte of the target changed. Compiled level (engine G, every macro form over a generated family of types, all ordered pairs) is added by the g-sigfamily engine when present.",
        "note": NATIVE_NOTE + " Pairs that differ only in lifetime spelling are exercised in engine G but not judged. KNOWN finding (engine G): two distinct nominal types with the same path (block-local homonyms) are not distinguished by type_name.",
    },
    "C10": {
        "level": "exploration",
        "design_ref": "DESIGN.md §4 C10",
        "technique": "property-based testing: (a) generated signature strings with return types that merely end in `-> bool` against a structural oracle; (b) assembly caller stub with generated register files around a forced-boolean function; (c) the real arm64/arm/amd64 stub encoders in simulation judged by independent decoders",
        "text": "(a) 1.2*10^4 / 6*10^5 generated signatures: accepted iff the top-level return type is exactly bool, refusal is a panic before any modification. (b) 4*10^3 / 4*10^5 generated register files x {true,false} x target in text / in arenas: al == value, rbx/rbp/r12-r15 and rsp as before the call, original body not run. (c) stubs emitted by the real arm64 (movz x0,#v; ret), arm (branch to a host-executed function returning v) and amd64 (mov rax,v; ret) encoders decoded for >10^5 cases each.",
        "note": NATIVE_NOTE + " Only `al` is the result of a bool function: garbage in the upper bits of rax is not a violation. arm/arm64 stubs are judged from emitted bytes.",
    },
    "C13": {
        "level": "exploration",
        "design_ref": "DESIGN.md §4 C13",
        "technique": "property-based testing with assembly probes: generated register files loaded by a caller stub and recorded by a recorder fake (both trampoline forms) + differential Rust-level signature shapes (faked call vs. direct call of the fake) + decoded register discipline of the arm64 sequences",
        "text": "4*10^3 / 4*10^5 generated register files (6 integer argument registers, xmm0-7 at 128 bits and, on AVX hosts, ymm0-7 at 256 bits, 0-16 stack words, rbx/rbp/r12-r15, returned rax/rdx/xmm0/xmm1 and the upper half of ymm0) with near (rel32) and far (out of rel32 reach of the trampoline) fakes, each form >= 30% of cases (else exit 2): the fake must see exactly what the caller set incl. rsp and the return address, the caller exactly what the fake returned, callee-saved registers and rsp preserved. 4*10^3 / 4*10^5 cases over 10 Rust-level shapes (stack-passed integers and doubles, 48-byte aggregates, hidden return slot, u128 and scalar-pair returns, extern C twins) compared differentially. Every probe case may carry earlier installations on the same function, make its call at the moment the library flushes the entry it has just patched, and synthetic originals start with a generated prologue. The placement engine of C01 runs here too (a fake that is never entered receives nothing). arm64: registers written by the emitted sequences must be within x9..x17 and never sp (simulation).",
        "note": NATIVE_NOTE + " rax, r10, r11 on entry to the fake are not compared (caller-saved, carry no argument of the supported signatures; the long form legitimately uses rax). The 32-bit ARM scratch-register question is judged once, under C16.",
    },
    "C14": {
        "level": "exploration",
        "design_ref": "DESIGN.md §4 C14",
        "technique": "stateful (model-based) property-based testing: generated fake / await / re-fake / end-of-lifetime histories over a family of sibling async functions, driven by a hand-written single-poll executor on several threads; oracle = reference model of the current value per function + poll counts + evaluation and side-effect counters",
        "text": "2.4*10^3 (quick) / 1.2*10^5 (thorough) generated histories of up to 24 operations over 11 async functions (free functions and a method, by-value and by-reference parameters, unit/scalar/heap/264-byte by-memory outputs, three functions sharing the output type u32 and two sharing String): while faked, the first poll is Ready with the latest fake's value on every executor thread, the value expression is evaluated exactly once per await, the original body does not run; every unfaked function, including same-output-type siblings of a faked one, yields its original value in two polls; after the lifetime (ended normally or by unwinding) everything is original again; an await may be made while the installation is being completed (from the interposer's flush hook), and two executor threads may await faked and unfaked functions at the same time while each value expression takes some microseconds (awaits overlap inside value expressions). A second engine places the poll function's trampoline and a synthetic poll function at generated displacements (the async share of C01's placement engine).",
        "note": NATIVE_NOTE + " The executor is single-poll and hand-written (no tokio): what is judged is the poll function the injector patches, not a runtime.",
    },
    "C12": {
        "level": "exploration",
        "design_ref": "DESIGN.md §4 C12",
        "technique": "stateful property-based testing: generated create/install/drop cycles repeated up to thousands of times per case; oracle = history invariant over the interposed mmap/munmap log plus /proc/self/maps before/after",
        "text": "640 (quick) / 1.2*10^4 (thorough) generated cases, each a cycle pattern repeated 1..120 (quick) / 1..4000 (thorough) times: ~4*10^4 / >10^6 cycles and ~10^5 / >3*10^6 installs per run. Every mapping an install keeps must be released exactly once at scope exit with a covering length, nothing else may be unmapped, and the set of executable anonymous pages after the cycles equals the set before.",
        "note": NATIVE_NOTE + " Per-step logs are kept for the first 6 lifetimes of a case; later cycles are judged by aggregate counters (created == released, no foreign/duplicate munmap) and the final /proc/self/maps comparison.",
    },
    "C17": {
        "level": "exploration",
        "design_ref": "DESIGN.md §4 C17",
        "technique": "property-based testing with a history invariant: interposed __clear_cache calls (range + content at call time) are matched against byte diffs between observation points of generated install histories and placements",
        "text": "1.6*10^3 (quick) / 8*10^4 (thorough) generated histories: for every byte that differs between two observation points (entry patch, trampoline content vs. the fresh zero page, restoration at scope exit, normal and unwinding) there must be a flush in between whose range contains the byte and whose captured content there equals the final content (so no write followed the flush).",
        "note": NATIVE_NOTE + " On x86-64 __clear_cache is a no-op, so interposing it is behaviour-neutral; the aarch64 dsb/isb barrier and the macOS sys_icache_invalidate path cannot be observed on this host. The redundant second flush in PatchGuard::drop is not demanded.",
    },
    "C15": {
        "level": "exploration",
        "design_ref": "DESIGN.md §4 C15, §2.2",
        "technique": "property-based testing: proptest-generated and exhaustively swept (func, trampoline, fake) tuples run through the real AArch64 encoder; oracle = independent A64 decoder with symbolic registers",
        "text": "The real patch_arm64.rs / arm64_codegenerator.rs (Linux and macOS cfg variants) are executed on the host for ~7*10^5 (quick) to >2*10^7 (thorough) generated cases plus exhaustive sub-sweeps (every 16-bit chunk of the fake address in every position; every word displacement within 80 words of the +/-128 MiB edges; ADRP page differences), and every byte they emit is decoded by an independent A64 decoder that must arrive at exactly the trampoline and then exactly the fake (or x0=value; ret), writing only x9..x17. A second engine (s2) runs the same patcher together with the unmodified common.rs against a model libc and follows the bytes found in (real, low) memory from the entry to the end; it only uses `PatchTrait::replace_function_*`, so it still decides when a change to the crate's internals stops the shim-based engine from building. Sampling, not proof: absence of a counterexample in the explored set. Every case also runs against a build without debug assertions and overflow checks (engine s1-arm64-noassert): a refusal must not exist only as a debug_assert.",
        "note": "Trusts: rustc; the three textual rewrites in vsim/build.rs; my A64 decoder (cross-checked against llvm-mc in `vsim selftest`); the 7-item shim of common.rs. Code is judged from emitted bytes, never executed on AArch64; dsb/isb barriers are not visible.",
    },
    "C16": {
        "level": "exploration",
        "design_ref": "DESIGN.md §4 C16, §2.2",
        "technique": "property-based testing: proptest-generated (entry, fake) pairs in the three entry classes through the real ARM patcher; oracle = independent A32/T32 decoder with Align(PC,4) literal addressing + AAPCS32 register-discipline predicate",
        "text": "The real patch_arm.rs is executed on the host for 3*10^5 (quick) to 3*10^7 (thorough) generated cases over all 32-bit targets/fakes in the three entry classes; the 12 written bytes are decoded by an independent A32/T32 decoder (literal load must read the word holding the fake inside the written range, then BX; guard must describe exactly the overwritten range; forced-boolean literals are resolved back to the host-compiled return_true/false and executed). A second engine (s2: unmodified common.rs + model libc, bytes read back from real low memory) follows the entry after every installation and demands the same destination; it survives changes to the crate's internal types. The register-discipline part has two KNOWN findings (r7 in Thumb, r9 in ARM state), excluded by exact signature so the rest of the statement is still searched. Every case also runs against a build without debug assertions and overflow checks (engine s1-arm-noassert).",
        "note": "Trusts: rustc; vsim/build.rs rewrites; my A32/T32 decoder (cross-checked against llvm-mc); pointer truncation `as u32` on a 64-bit host is faithful only for addresses < 2^32, which is what is generated. Never executed on ARM hardware.",
    },
}
