//! Run-time signature-string cases (C09 string-level metamorphic pairs; C10 accept/refuse).
//!
//! `FuncPtr::new(ptr, signature)` is public API: a type-carrying pointer is a pointer plus the
//! rendering of its function-pointer type.  Here the renderings are produced by a type grammar
//! in the style rustc's `type_name` uses, so the *structure* of every string is known to the
//! oracle (it never parses strings): a pair built from one structure is "written identically",
//! a pair that differs by one grammar mutation is structurally different.

use crate::driver::{signal_name, Exec};
use crate::interpose as ip;
use crate::targets;
use injectorpp::interface::injector::*;
use proptest::prelude::*;
use serde::{Deserialize, Serialize};
use serde_json::{json, Value};
use std::sync::atomic::Ordering::SeqCst;
use vcommon::Recorder;

#[derive(Serialize, Deserialize, Clone, Debug, Hash, PartialEq, Eq)]
pub enum Ty {
    Prim(u8),
    Unit,
    Ref(Box<Ty>, bool),
    Ptr(Box<Ty>, bool),
    Str,
    Slice(Box<Ty>),
    Array(Box<Ty>, u8),
    Tuple(Vec<Ty>),
    Opt(Box<Ty>),
    Named(u8),
    Fn(Box<FnSig>),
    /// &dyn Fn() -> R
    DynFn(Box<Ty>),
}

#[derive(Serialize, Deserialize, Clone, Debug, Hash, PartialEq, Eq)]
pub struct FnSig {
    pub unsafe_: bool,
    /// 0 Rust, 1 "C", 2 "system"
    pub abi: u8,
    pub params: Vec<Ty>,
    pub ret: Ty,
}

const PRIMS: [&str; 12] = ["bool", "u8", "i8", "u16", "i32", "u32", "i64", "u64", "usize", "f32", "f64", "char"];
// nominal types; 3<->4 and 5<->6 are *different* types that share their last path segment, 7 is a
// user type that is merely *named* `bool`
const NAMED: [&str; 8] = ["vnative::targets::Widget", "alloc::string::String", "std::path::Path", "core::fmt::Error", "std::io::error::Error", "app::small::Config", "app::large::inner::Config", "app::flags::bool"];

fn homonym_of(i: u8) -> Option<u8> {
    match i % 8 {
        3 => Some(4),
        4 => Some(3),
        5 => Some(6),
        6 => Some(5),
        _ => None,
    }
}

/// replaces the first nominal type that has a homonym (same last path segment, different path)
fn swap_homonym(t: &Ty) -> Option<Ty> {
    match t {
        Ty::Named(i) => homonym_of(*i).map(Ty::Named),
        Ty::Ref(x, m) => swap_homonym(x).map(|y| Ty::Ref(Box::new(y), *m)),
        Ty::Ptr(x, m) => swap_homonym(x).map(|y| Ty::Ptr(Box::new(y), *m)),
        Ty::Slice(x) => swap_homonym(x).map(|y| Ty::Slice(Box::new(y))),
        Ty::Array(x, n) => swap_homonym(x).map(|y| Ty::Array(Box::new(y), *n)),
        Ty::Opt(x) => swap_homonym(x).map(|y| Ty::Opt(Box::new(y))),
        Ty::Tuple(v) => {
            for (k, x) in v.iter().enumerate() {
                if let Some(y) = swap_homonym(x) {
                    let mut w = v.clone();
                    w[k] = y;
                    return Some(Ty::Tuple(w));
                }
            }
            None
        }
        _ => None,
    }
}

pub fn render_ty(t: &Ty) -> String {
    match t {
        Ty::Prim(i) => PRIMS[*i as usize % PRIMS.len()].to_string(),
        Ty::Unit => "()".into(),
        Ty::Ref(t, m) => format!("&{}{}", if *m { "mut " } else { "" }, render_ty(t)),
        Ty::Ptr(t, m) => format!("*{} {}", if *m { "mut" } else { "const" }, render_ty(t)),
        Ty::Str => "&str".into(),
        Ty::Slice(t) => format!("&[{}]", render_ty(t)),
        Ty::Array(t, n) => format!("[{}; {}]", render_ty(t), n),
        Ty::Tuple(v) => {
            if v.len() == 1 {
                format!("({},)", render_ty(&v[0]))
            } else {
                format!("({})", v.iter().map(render_ty).collect::<Vec<_>>().join(", "))
            }
        }
        Ty::Opt(t) => format!("core::option::Option<{}>", render_ty(t)),
        Ty::Named(i) => NAMED[*i as usize % NAMED.len()].to_string(),
        Ty::Fn(s) => render_sig(s),
        Ty::DynFn(r) => format!("&dyn core::ops::function::Fn() -> {}", render_ty(r)),
    }
}

pub fn render_sig(s: &FnSig) -> String {
    let mut out = String::new();
    if s.unsafe_ {
        out.push_str("unsafe ");
    }
    match s.abi % 3 {
        1 => out.push_str("extern \"C\" "),
        2 => out.push_str("extern \"system\" "),
        _ => {}
    }
    out.push_str("fn(");
    out.push_str(&s.params.iter().map(render_ty).collect::<Vec<_>>().join(", "));
    out.push(')');
    if s.ret != Ty::Unit {
        out.push_str(" -> ");
        out.push_str(&render_ty(&s.ret));
    }
    out
}

fn ty_strategy() -> impl Strategy<Value = Ty> {
    let leaf = prop_oneof![4 => (0u8..12).prop_map(Ty::Prim), 1 => Just(Ty::Str), 2 => (0u8..8).prop_map(Ty::Named), 1 => Just(Ty::Unit)];
    leaf.prop_recursive(3, 12, 4, |inner| {
        prop_oneof![
            3 => (inner.clone(), any::<bool>()).prop_map(|(t, m)| Ty::Ref(Box::new(t), m)),
            1 => (inner.clone(), any::<bool>()).prop_map(|(t, m)| Ty::Ptr(Box::new(t), m)),
            1 => inner.clone().prop_map(|t| Ty::Slice(Box::new(t))),
            1 => (inner.clone(), 1u8..5).prop_map(|(t, n)| Ty::Array(Box::new(t), n)),
            1 => prop::collection::vec(inner.clone(), 1..3).prop_map(Ty::Tuple),
            1 => inner.clone().prop_map(|t| Ty::Opt(Box::new(t))),
            1 => (prop::collection::vec(inner.clone(), 0..3), inner.clone(), any::<bool>(), 0u8..3).prop_map(|(params, ret, unsafe_, abi)| Ty::Fn(Box::new(FnSig { unsafe_, abi, params, ret }))),
            1 => inner.prop_map(|t| Ty::DynFn(Box::new(t))),
        ]
    })
}

pub fn sig_strategy() -> impl Strategy<Value = FnSig> {
    (prop::collection::vec(ty_strategy(), 0..=6), ty_strategy(), any::<bool>(), prop_oneof![3 => Just(0u8), 1 => Just(1u8), 1 => Just(2u8)], prop::option::weighted(0.3, (3u8..7, any::<bool>(), any::<u8>()))).prop_map(|(mut params, ret, unsafe_, abi, extra)| {
        if let Some((n, by_ref, pos)) = extra {
            let t = if by_ref { Ty::Ref(Box::new(Ty::Named(n)), false) } else { Ty::Named(n) };
            let at = pos as usize % (params.len() + 1);
            params.insert(at, t);
            params.truncate(6);
        }
        FnSig { unsafe_: unsafe_ || abi != 0, abi, params, ret }
    })
}

#[derive(Serialize, Deserialize, Clone, Debug, Hash, PartialEq, Eq)]
pub enum Mutation {
    /// identical pair (must be accepted)
    None,
    DropParam(u8),
    AddParam(u8, Ty),
    ChangeParam(u8, Ty),
    ChangeRet(Ty),
    FlipMut(u8),
    FlipUnsafe,
    ChangeAbi(u8),
    /// one nominal type replaced by a *different* type with the same last path segment
    SwapHomonym,
    /// replacement comes from the unchecked macros (empty signature) while the target is typed
    ReplacementUnchecked,
    /// target comes from when_called_unchecked while the replacement is typed
    TargetUnchecked,
    NullReplacement,
    NullTarget,
}

/// Applies the mutation; None when it does not change the structure (e.g. FlipMut on a
/// parameter without a reference) -- such cases are generated again as identical pairs.
pub fn mutate(s: &FnSig, m: &Mutation) -> Option<FnSig> {
    let mut t = s.clone();
    match m {
        Mutation::None | Mutation::ReplacementUnchecked | Mutation::TargetUnchecked | Mutation::NullReplacement | Mutation::NullTarget => return Some(t),
        Mutation::DropParam(i) => {
            if t.params.is_empty() {
                return None;
            }
            let i = *i as usize % t.params.len();
            t.params.remove(i);
        }
        Mutation::AddParam(i, ty) => {
            let i = *i as usize % (t.params.len() + 1);
            t.params.insert(i, ty.clone());
        }
        Mutation::ChangeParam(i, ty) => {
            if t.params.is_empty() {
                return None;
            }
            let i = *i as usize % t.params.len();
            if &t.params[i] == ty {
                return None;
            }
            t.params[i] = ty.clone();
        }
        Mutation::ChangeRet(ty) => {
            if &t.ret == ty {
                return None;
            }
            t.ret = ty.clone();
        }
        Mutation::FlipMut(i) => {
            if t.params.is_empty() {
                return None;
            }
            let i = *i as usize % t.params.len();
            match &t.params[i] {
                Ty::Ref(inner, m) => t.params[i] = Ty::Ref(inner.clone(), !m),
                Ty::Ptr(inner, m) => t.params[i] = Ty::Ptr(inner.clone(), !m),
                _ => return None,
            }
        }
        Mutation::FlipUnsafe => {
            if t.abi % 3 != 0 && t.unsafe_ {
                // extern fn pointers in this grammar are always unsafe; flip to safe extern
                t.unsafe_ = false;
            } else {
                t.unsafe_ = !t.unsafe_;
            }
        }
        Mutation::SwapHomonym => {
            let mut done = false;
            for k in 0..t.params.len() {
                if let Some(y) = swap_homonym(&t.params[k]) {
                    t.params[k] = y;
                    done = true;
                    break;
                }
            }
            if !done {
                match swap_homonym(&t.ret) {
                    Some(y) => t.ret = y,
                    None => return None,
                }
            }
        }
        Mutation::ChangeAbi(a) => {
            let a = a % 3;
            if a == t.abi % 3 {
                return None;
            }
            t.abi = a;
        }
    }
    if render_sig(&t) == render_sig(s) {
        return None;
    }
    Some(t)
}

#[derive(Serialize, Deserialize, Clone, Debug, Hash, PartialEq, Eq)]
pub struct SigCase {
    pub sig: FnSig,
    pub mutation: Mutation,
    /// 0 will_execute_raw, 1 will_execute (pair with a dummy verifier)
    pub api: u8,
    /// the replacement pointer is the target's own address (one piece of code presented under
    /// two signatures): the accept/refuse decision is about the signatures all the same
    #[serde(default)]
    pub same_address: bool,
    /// the installation is attempted by tear-down code that runs while the thread is unwinding
    /// from an earlier panic (a fixture's `Drop`); the attempt is caught inside that destructor
    #[serde(default)]
    pub while_unwinding: bool,
}

#[derive(Serialize, Deserialize, Clone, Debug, Hash, PartialEq, Eq)]
pub struct BoolCase {
    pub sig: FnSig,
    pub value: bool,
    /// 0: typed target; 1: `when_called_unchecked` (no recorded signature); 2: `when_called` with a
    /// pointer that carries no signature.  (3, a string that is not a function type at all, exists
    /// for experiments only: what to do with such a string is nobody's claim, so it is not generated)
    #[serde(default)]
    pub untyped: u8,
    #[serde(default)]
    pub while_unwinding: bool,
}

#[derive(Serialize, Deserialize, Clone, Debug, Default)]
pub struct SigObs {
    pub sig_a: String,
    pub sig_b: String,
    pub panic: Option<String>,
    pub interposed_calls: u64,
    pub bytes_changed_during_attempt: bool,
    pub call_value: Option<u64>,
    pub restored: bool,
}

fn leak(s: String) -> &'static str {
    // the API wants &'static str; cases are small and the worker is short-lived
    Box::leak(s.into_boxed_str())
}

#[inline(never)]
pub fn sig_target() -> u64 {
    std::hint::black_box(0x5160)
}
#[inline(never)]
pub fn sig_replacement() -> u64 {
    std::hint::black_box(0x5161)
}
#[inline(never)]
pub fn sig_bool_target() -> bool {
    std::hint::black_box(false)
}

pub fn execute_sig(c: &SigCase) -> SigObs {
    let mut o = SigObs::default();
    let Some(b) = mutate(&c.sig, &c.mutation) else {
        o.sig_a = "unmutable".into();
        return o;
    };
    let sa = leak(render_sig(&c.sig));
    let sb = leak(render_sig(&b));
    o.sig_a = sa.to_string();
    o.sig_b = sb.to_string();
    ip::plan_reset();
    ip::log_clear();
    let taddr = sig_target as fn() -> u64 as usize;
    let raddr = if c.same_address { taddr } else { sig_replacement as fn() -> u64 as usize };
    let before = crate::mem::read_direct(taddr, 32);
    let calls0 = ip::MMAP_CALLS.load(SeqCst) + ip::MPROTECT_CALLS.load(SeqCst) as u64;
    let _ = calls0;
    let api = c.api;
    let mutation = c.mutation.clone();
    crate::worker::phase("install");
    let attempt = || std::panic::catch_unwind(std::panic::AssertUnwindSafe(|| {
        ip::sut(|| unsafe {
            let mut inj = InjectorPP::new();
            let tptr = if mutation == Mutation::NullTarget { std::ptr::null() } else { taddr as *const () };
            let rptr = if mutation == Mutation::NullReplacement { std::ptr::null() } else { raddr as *const () };
            let builder = if mutation == Mutation::TargetUnchecked { inj.when_called_unchecked(FuncPtr::new(tptr, "")) } else { inj.when_called(FuncPtr::new(tptr, sa)) };
            let rep = if mutation == Mutation::ReplacementUnchecked { FuncPtr::new(rptr, "") } else { FuncPtr::new(rptr, sb) };
            if api % 2 == 0 {
                builder.will_execute_raw(rep);
            } else {
                builder.will_execute((rep, CallCountVerifier::Dummy));
            }
            inj
        })
    }));
    let r = if c.while_unwinding { crate::worker::while_unwinding(attempt) } else { attempt() };
    let log = ip::log_snapshot();
    o.interposed_calls = log.len() as u64;
    o.bytes_changed_during_attempt = crate::mem::read_direct(taddr, 32) != before;
    match r {
        Err(_) => {
            o.panic = Some(crate::worker::last_panic());
            // a refused attempt must leave nothing behind; if it did, restore is impossible here
            o.restored = crate::mem::read_direct(taddr, 32) == before;
        }
        Ok(inj) => {
            crate::worker::phase("call");
            // only call when the entry leads to the replacement
            let m = crate::mem::ProcMem::new();
            let out = vcommon::decoders::x86_follow(&m, taddr as u64, &[raddr as u64], 6);
            // (a function redirected to itself is never called: it would not return)
            if raddr != taddr && out.end == (vcommon::decoders::X86End::Arrived { at: raddr as u64 }) {
                o.call_value = Some(sig_target());
            }
            crate::worker::phase("drop");
            ip::sut(|| drop(inj));
            o.restored = crate::mem::read_direct(taddr, 32) == before;
        }
    }
    let _ = targets::SIG_U;
    o
}

pub fn execute_bool(c: &BoolCase) -> SigObs {
    let mut o = SigObs::default();
    let sa = leak(render_sig(&c.sig));
    o.sig_a = sa.to_string();
    ip::plan_reset();
    ip::log_clear();
    let taddr = sig_bool_target as fn() -> bool as usize;
    let before = crate::mem::read_direct(taddr, 32);
    let v = c.value;
    let untyped = c.untyped % 4;
    // strings that are not a function signature (whatever they end in)
    let junk: &'static str = ["bool", "-> bool", " ", "fn", "bool -> bool", "fn() ->", "() -> bool"][(c.sig.params.len() + c.value as usize) % 7];
    if untyped != 0 {
        o.sig_a = if untyped == 3 { format!("<not a signature: {junk:?}>") } else { "<no recorded signature>".into() };
    }
    crate::worker::phase("install");
    let attempt = || std::panic::catch_unwind(std::panic::AssertUnwindSafe(|| {
        ip::sut(|| unsafe {
            let mut inj = InjectorPP::new();
            match untyped {
                1 => inj.when_called_unchecked(FuncPtr::new(taddr as *const (), "")).will_return_boolean(v),
                2 => inj.when_called(FuncPtr::new(taddr as *const (), "")).will_return_boolean(v),
                3 => inj.when_called(FuncPtr::new(taddr as *const (), junk)).will_return_boolean(v),
                _ => inj.when_called(FuncPtr::new(taddr as *const (), sa)).will_return_boolean(v),
            }
            inj
        })
    }));
    let r = if c.while_unwinding { crate::worker::while_unwinding(attempt) } else { attempt() };
    o.interposed_calls = ip::log_snapshot().len() as u64;
    o.bytes_changed_during_attempt = crate::mem::read_direct(taddr, 32) != before;
    match r {
        Err(_) => {
            o.panic = Some(crate::worker::last_panic());
            o.restored = crate::mem::read_direct(taddr, 32) == before;
        }
        Ok(inj) => {
            crate::worker::phase("call");
            o.call_value = Some(sig_bool_target() as u64);
            crate::worker::phase("drop");
            ip::sut(|| drop(inj));
            o.restored = crate::mem::read_direct(taddr, 32) == before;
        }
    }
    o
}

// ------------------------------------------------------------------------------------------------
// strategies

fn mutation_strategy() -> impl Strategy<Value = Mutation> {
    prop_oneof![
        3 => Just(Mutation::None),
        2 => any::<u8>().prop_map(Mutation::DropParam),
        2 => (any::<u8>(), ty_strategy()).prop_map(|(i, t)| Mutation::AddParam(i, t)),
        3 => (any::<u8>(), ty_strategy()).prop_map(|(i, t)| Mutation::ChangeParam(i, t)),
        3 => ty_strategy().prop_map(Mutation::ChangeRet),
        3 => any::<u8>().prop_map(Mutation::FlipMut),
        2 => Just(Mutation::FlipUnsafe),
        2 => (0u8..3).prop_map(Mutation::ChangeAbi),
        3 => Just(Mutation::SwapHomonym),
        1 => Just(Mutation::ReplacementUnchecked),
        1 => Just(Mutation::TargetUnchecked),
        1 => Just(Mutation::NullReplacement),
        1 => Just(Mutation::NullTarget),
    ]
}

pub fn sig_case_strategy() -> impl Strategy<Value = SigCase> {
    (sig_strategy(), mutation_strategy(), 0u8..2).prop_map(|(sig, mutation, api)| {
        // mutations that cannot apply to this structure degrade to the identical pair
        let mutation = if mutate(&sig, &mutation).is_none() { Mutation::None } else { mutation };
        SigCase { sig, mutation, api, same_address: false, while_unwinding: false }
    })
    .prop_flat_map(|c| (Just(c), prop::bool::weighted(0.12), prop::bool::weighted(0.15)).prop_map(|(mut c, same, unw)| {
        c.same_address = same && !matches!(c.mutation, Mutation::NullReplacement | Mutation::NullTarget);
        c.while_unwinding = unw;
        c
    }))
}

/// Return types biased to ones whose rendering merely *ends in* `-> bool`, and look-alikes.
pub fn bool_case_strategy() -> impl Strategy<Value = BoolCase> {
    let b = || Ty::Prim(0);
    let fnbool = |params: Vec<Ty>, unsafe_: bool, abi: u8| Ty::Fn(Box::new(FnSig { unsafe_, abi, params, ret: Ty::Prim(0) }));
    let ret = prop_oneof![
        6 => Just(b()),
        2 => Just(fnbool(vec![], false, 0)),
        1 => Just(fnbool(vec![Ty::Prim(1)], true, 1)),
        1 => Just(Ty::DynFn(Box::new(b()))),
        1 => Just(Ty::Ptr(Box::new(fnbool(vec![], false, 0)), false)),
        1 => Just(Ty::Fn(Box::new(FnSig { unsafe_: false, abi: 0, params: vec![], ret: fnbool(vec![], false, 0) }))),
        1 => Just(Ty::Opt(Box::new(b()))),
        1 => Just(Ty::Tuple(vec![b()])),
        1 => Just(Ty::Array(Box::new(b()), 1)),
        1 => Just(Ty::Ref(Box::new(b()), false)),
        1 => Just(Ty::Ref(Box::new(fnbool(vec![], false, 0)), false)),
        2 => Just(Ty::Named(7)),
        1 => Just(Ty::Unit),
        3 => ty_strategy(),
    ];
    // parameters may themselves contain `-> bool`
    let param = prop_oneof![3 => ty_strategy(), 1 => Just(fnbool(vec![], false, 0)), 1 => Just(Ty::DynFn(Box::new(b())))];
    (prop::collection::vec(param, 0..=5), ret, any::<bool>(), prop_oneof![3 => Just(0u8), 1 => Just(1u8), 1 => Just(2u8)], any::<bool>()).prop_map(|(params, ret, unsafe_, abi, value)| BoolCase { sig: FnSig { unsafe_: unsafe_ || abi != 0, abi, params, ret }, value, untyped: 0, while_unwinding: false })
        .prop_flat_map(|c| (Just(c), prop_oneof![12 => Just(0u8), 1 => Just(1u8), 1 => Just(2u8)], prop::bool::weighted(0.15)).prop_map(|(mut c, u, unw)| {
            c.untyped = u;
            c.while_unwinding = unw;
            c
        }))
}

// ------------------------------------------------------------------------------------------------
// judges

fn obs_of(rec: &mut Recorder, ex: Exec, what: &dyn std::fmt::Debug) -> Result<Option<SigObs>, String> {
    let prop = rec.property.clone();
    match ex {
        Exec::Timeout => {
            rec.count("watchdog", 1);
            Ok(None)
        }
        Exec::Died { signal, code, phase, stderr_tail } => {
            let s = signal.map(signal_name).unwrap_or("exit");
            rec.fail(&format!("{prop}/native/died/{s}/{phase}"), format!("worker died ({s} code {code:?}) in phase '{phase}' while executing {what:?}; stderr: {stderr_tail}"))?;
            Ok(None)
        }
        Exec::Obs(v) => {
            if let Some(e) = v.get("harness_error") {
                rec.inconclusive.push(format!("harness error: {e}"));
                return Ok(None);
            }
            Ok(serde_json::from_value(v).ok())
        }
    }
}

pub fn judge_sig(rec: &mut Recorder, c: &SigCase, ex: Exec, _hello: &Value) -> Result<(), String> {
    let Some(o) = obs_of(rec, ex, c)? else { return Ok(()) };
    if o.sig_a == "unmutable" {
        rec.count("discarded", 1);
        return Ok(());
    }
    rec.eval(|| json!({"target_sig": o.sig_a, "replacement_sig": o.sig_b, "mutation": format!("{:?}", c.mutation), "api": c.api, "outcome": o.panic.clone().unwrap_or_else(|| "accepted".into())}));
    let mname = format!("{:?}", c.mutation);
    let mname = mname.split('(').next().unwrap_or("").to_string();
    rec.class(&format!("mutation/{mname}"));
    if c.while_unwinding {
        rec.class(if c.mutation == Mutation::None { "attempted-from-tear-down-while-unwinding/identical" } else { "attempted-from-tear-down-while-unwinding/different" });
    }
    let sig = |s: &str| format!("C09/native-strings/{s}");
    match c.mutation {
        Mutation::None => {
            if let Some(p) = &o.panic {
                return rec.fail(&sig("identical-pair-refused"), format!("identically written pair {:?} was refused: {p}", o.sig_a));
            }
            if c.same_address {
                rec.class("replacement-at-the-target's-own-address/identical");
            } else if o.call_value != Some(0x5161) {
                return rec.fail(&sig("accepted-but-not-redirected"), format!("accepted pair {:?}: target returned {:?}, replacement returns 0x5161", o.sig_a, o.call_value));
            }
            rec.nontrivial(&("identical", &o.sig_a, c.api));
        }
        _ => {
            if c.same_address {
                rec.class("replacement-at-the-target's-own-address/different-signature");
            }
            let want = match c.mutation {
                Mutation::NullReplacement | Mutation::NullTarget => "null",
                _ => "mismatch",
            };
            match &o.panic {
                None => {
                    return rec.fail(&sig(&format!("different-pair-accepted/{mname}")), format!("structurally different pair accepted: target {:?} vs replacement {:?} (mutation {:?})", o.sig_a, o.sig_b, c.mutation));
                }
                Some(p) if !p.to_lowercase().contains(want) => {
                    return rec.fail(&sig("refusal-without-proper-message"), format!("refusal of {:?} vs {:?} panicked with {p:?}, expected a signature-mismatch / null-pointer message (containing {want:?}, case-insensitive)", o.sig_a, o.sig_b));
                }
                _ => {}
            }
            if o.bytes_changed_during_attempt || o.interposed_calls != 0 {
                return rec.fail(&sig("refused-after-modification"), format!("refusal of {:?} vs {:?} happened after the injector touched memory ({} interposed calls, target bytes changed: {})", o.sig_a, o.sig_b, o.interposed_calls, o.bytes_changed_during_attempt));
            }
            rec.nontrivial(&(&o.sig_a, &o.sig_b, c.api));
        }
    }
    if !o.restored {
        return rec.fail(&sig("target-left-modified"), format!("target not pristine after the case {c:?}"));
    }
    Ok(())
}

pub fn judge_bool(rec: &mut Recorder, c: &BoolCase, ex: Exec, _hello: &Value) -> Result<(), String> {
    let Some(o) = obs_of(rec, ex, c)? else { return Ok(()) };
    let is_bool = c.sig.ret == Ty::Prim(0) && c.untyped % 4 == 0;
    let ends_like = o.sig_a.trim_end().ends_with("-> bool");
    if c.untyped % 4 != 0 {
        rec.class(["", "target-without-signature/unchecked-builder", "target-without-signature/checked-builder", "signature-string-is-not-a-function-type"][(c.untyped % 4) as usize]);
    }
    rec.eval(|| json!({"sig": o.sig_a, "value": c.value, "top_level_return_is_bool": is_bool, "outcome": o.panic.clone().unwrap_or_else(|| "accepted".into())}));
    rec.class(match (is_bool, ends_like) {
        (true, _) => "returns-bool",
        (false, true) => "look-alike-ending-in-bool",
        (false, false) => "other-return-type",
    });
    if c.while_unwinding {
        rec.class(if is_bool { "attempted-from-tear-down-while-unwinding/bool" } else { "attempted-from-tear-down-while-unwinding/non-bool" });
    }
    let sig = |s: &str| format!("C10/native-strings/{s}");
    if is_bool {
        if let Some(p) = &o.panic {
            return rec.fail(&sig("bool-function-refused"), format!("forcing a boolean on {:?} was refused: {p}", o.sig_a));
        }
        if o.call_value != Some(c.value as u64) {
            return rec.fail(&sig("wrong-value"), format!("forced {} on {:?} but the call returned {:?}", c.value, o.sig_a, o.call_value));
        }
        if c.sig.params.len() >= 3 {
            rec.nontrivial(&(&o.sig_a, c.value));
        }
    } else {
        match &o.panic {
            None => {
                return rec.fail(&sig(if ends_like { "non-bool-accepted/ends-with-arrow-bool" } else { "non-bool-accepted" }), format!("will_return_boolean accepted {:?}, whose return type is {}, not bool", o.sig_a, if c.untyped % 4 != 0 { "unknown (no function signature recorded)".to_string() } else { format!("{:?}", super::sigs::render_ty(&c.sig.ret)) }));
            }
            Some(_) => {}
        }
        if o.bytes_changed_during_attempt || o.interposed_calls != 0 {
            return rec.fail(&sig("refused-after-modification"), format!("refusal for {:?} happened after the injector touched memory ({} interposed calls)", o.sig_a, o.interposed_calls));
        }
        if ends_like {
            rec.nontrivial(&(&o.sig_a, c.value));
        }
    }
    if !o.restored {
        return rec.fail(&sig("target-left-modified"), format!("target not pristine after the case {c:?}"));
    }
    Ok(())
}
