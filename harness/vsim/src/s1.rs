//! Engine S1: the unmodified arch patchers (amd64, arm64-linux, arm64-macos, arm) compiled on
//! the host against the sparse-memory shim, judged by the independent decoders.

use vcommon::decoders::*;
use crate::shim::{self, Event};
use proptest::prelude::*;
use serde::{Deserialize, Serialize};
use serde_json::json;
use std::ptr::NonNull;
use vcommon::Recorder;

#[derive(Clone, Copy, Debug, PartialEq, Eq, Serialize, Deserialize, Hash)]
pub enum Mode {
    Fn,
    Bool(bool),
}

#[derive(Clone, Debug)]
pub struct GuardInfo {
    pub func_ptr: u64,
    pub original_bytes: Vec<u8>,
    pub patch_size: usize,
    pub jit_memory: u64,
    pub jit_size: usize,
}

impl From<shim::PatchGuard> for GuardInfo {
    fn from(g: shim::PatchGuard) -> Self {
        GuardInfo {
            func_ptr: g.func_ptr as u64,
            original_bytes: g.original_bytes,
            patch_size: g.patch_size,
            jit_memory: g.jit_memory as u64,
            jit_size: g.jit_size,
        }
    }
}

pub use crate::sut::{last_panic, quiet_panics, IN_SUT};

/// Runs one installation of the real patcher under catch_unwind.
/// Ok(guard) = installed; Err(msg) = the library refused loudly (panic).
pub fn run_install(salt: u64, jit_plan: &[u64], f: impl FnOnce() -> shim::PatchGuard) -> Result<GuardInfo, String> {
    shim::reset(salt, jit_plan);
    IN_SUT.with(|f| f.set(true));
    let r = std::panic::catch_unwind(std::panic::AssertUnwindSafe(f));
    IN_SUT.with(|f| f.set(false));
    match r {
        Ok(g) => Ok(g.into()),
        Err(_) => Err(last_panic()),
    }
}

fn fpi(addr: u64) -> shim::FuncPtrInternal {
    unsafe { shim::FuncPtrInternal::new(NonNull::new(addr as usize as *mut ()).expect("nonzero")) }
}

struct SimMem;
impl Mem for SimMem {
    fn byte(&self, addr: u64) -> u8 {
        shim::SIM.with(|s| s.borrow().byte(addr))
    }
}
struct SimMem32;
impl Mem for SimMem32 {
    fn byte(&self, addr: u64) -> u8 {
        shim::SIM.with(|s| s.borrow().byte(addr & 0xFFFF_FFFF))
    }
}

fn pre_bytes(salt: u64, addr: u64, len: usize) -> Vec<u8> {
    (0..len).map(|i| shim::pattern(salt, addr.wrapping_add(i as u64))).collect()
}

fn patches_at(ev: &[Event], addr: u64) -> Vec<&Vec<u8>> {
    ev.iter()
        .filter_map(|e| match e {
            Event::Patch { addr: a, bytes } if *a == addr => Some(bytes),
            _ => None,
        })
        .collect()
}

fn any_write_overlapping(ev: &[Event], lo: u64, hi: u64) -> bool {
    ev.iter().any(|e| match e {
        Event::Patch { addr, bytes } | Event::Inject { addr, bytes } => {
            let a = *addr;
            let b = a.wrapping_add(bytes.len() as u64);
            a < hi && b > lo
        }
        _ => false,
    })
}

// strategies ----------------------------------------------------------------------------------

/// A trampoline is a fresh mapping: it never overlaps the function's entry slot.  (Soundness of
/// the generator: an overlapping pair makes the saved bytes contain trampoline bytes, which no
/// real address space can produce.)
pub fn overlaps(func: u64, jit: u64) -> bool {
    let lo = func.wrapping_sub(4096);
    let d = jit.wrapping_sub(lo);
    d < 4096 + 32
}
pub fn separate(func: u64, jit: u64) -> u64 {
    if overlaps(func, jit) {
        (func & !0xFFF).wrapping_add(0x2000)
    } else {
        jit
    }
}

fn log_uniform(max_bits: u32) -> impl Strategy<Value = u64> {
    (0..max_bits, any::<u64>()).prop_map(|(b, m)| (1u64 << b) | (m & ((1u64 << b) - 1)))
}

fn chunky_u64() -> impl Strategy<Value = u64> {
    let chunk = prop_oneof![Just(0u16), Just(0xFFFFu16), Just(0x8000u16), Just(1u16), any::<u16>()];
    (chunk.clone(), chunk.clone(), chunk.clone(), chunk).prop_map(|(a, b, c, d)| a as u64 | (b as u64) << 16 | (c as u64) << 32 | (d as u64) << 48)
}

// =================================================================================================
// AArch64 (C15; forced-boolean stub for C10; register discipline for C13)

#[derive(Clone, Debug, Serialize, Deserialize, Hash, PartialEq, Eq)]
pub struct A64Case {
    pub macos: bool,
    pub func: u64,
    pub jit: u64,
    pub fake: u64,
    pub mode: Mode,
    pub salt: u64,
}

pub const A64_REACH: i64 = 1 << 27;

fn a64_func() -> impl Strategy<Value = u64> {
    prop_oneof![
        3 => (0x1000u64..(1u64 << 47)).prop_map(|a| a & !3),
        1 => (0x1000u64..0x1000_0000u64).prop_map(|a| a & !3),
        1 => ((1u64 << 47)..(1u64 << 52)).prop_map(|a| a & !3),
        2 => (0x10u64..(1u64 << 35), prop_oneof![Just(0u64), Just(0xFFC), Just(0xFF8), Just(0xFF4), Just(4)]).prop_map(|(p, o)| (p << 12) | o),
    ]
}

fn a64_disp_linux() -> impl Strategy<Value = i64> {
    prop_oneof![
        3 => (-(A64_REACH / 4)..(A64_REACH / 4)).prop_map(|w| w * 4),
        3 => (prop_oneof![Just(-A64_REACH), Just(A64_REACH)], -16i64..=16).prop_map(|(e, k)| e + 4 * k),
        1 => (-4096i64..4096).prop_map(|p| p * 4096),
        1 => (-32768i64..=32768, prop_oneof![Just(-A64_REACH), Just(A64_REACH), Just(0i64)]).prop_map(|(p, e)| e + p * 4096),
        2 => (log_uniform(40), any::<bool>()).prop_map(|(m, neg)| { let d = ((m as i64) & !3).max(4); if neg { -d } else { d } }),
        1 => prop_oneof![Just(4i64), Just(-4), Just(8), Just(-8), Just(0x1FFF_FFFFi64 * 4), Just(0x2000_0000i64 * 4), Just(-(0x2000_0000i64 * 4))],
    ]
}

fn a64_disp_macos() -> impl Strategy<Value = i64> {
    let lim: i64 = (1i64 << 32) - (1 << 13);
    prop_oneof![
        2 => (-(A64_REACH / 4)..(A64_REACH / 4)).prop_map(|w| w * 4),
        3 => (prop_oneof![Just(-A64_REACH), Just(A64_REACH)], -16i64..=16).prop_map(|(e, k)| e + 4 * k),
        4 => (-lim..lim).prop_map(|d| d & !3),
        2 => (-(1i64 << 20) + 2..(1i64 << 20) - 2).prop_map(|p| p * 4096),
        2 => (prop_oneof![Just(-lim), Just(lim), Just(-(1i64 << 31)), Just(1i64 << 31)], -64i64..=64).prop_map(move |(e, k)| (e + 4 * k).clamp(-lim, lim) & !3),
    ]
}

pub fn a64_case(macos_only: Option<bool>, modes: Vec<Mode>) -> impl Strategy<Value = A64Case> {
    let macos = match macos_only {
        Some(b) => Just(b).boxed(),
        None => any::<bool>().boxed(),
    };
    (macos, a64_func(), a64_disp_linux(), a64_disp_macos(), any::<bool>(), prop_oneof![chunky_u64(), any::<u64>(), (0x1000u64..(1u64 << 47))], proptest::sample::select(weighted(modes)), any::<u64>())
        .prop_map(|(macos, func, dl, dm, page_align, fake, mode, salt)| {
            let d = if macos { dm } else { dl };
            let mut jit = func.wrapping_add(d as u64);
            if macos && page_align {
                jit &= !0xFFF;
            }
            if jit == 0 {
                jit = 0x1000;
            }
            let jit = separate(func, jit);
            A64Case { macos, func, jit, fake: fake.max(1), mode, salt }
        })
}

pub fn a64_install(c: &A64Case) -> Result<GuardInfo, String> {
    use crate::s1_arm64_linux::injector_core::patch_arm64::PatchArm64 as L;
    use crate::s1_arm64_linux::injector_core::patch_trait::PatchTrait as LT;
    use crate::s1_arm64_macos::injector_core::patch_arm64::PatchArm64 as M;
    use crate::s1_arm64_macos::injector_core::patch_trait::PatchTrait as MT;
    run_install(c.salt, &[c.jit], || match (c.macos, c.mode) {
        (false, Mode::Fn) => <L as LT>::replace_function_with_other_function(fpi(c.func), fpi(c.fake)),
        (false, Mode::Bool(v)) => <L as LT>::replace_function_return_boolean(fpi(c.func), v),
        (true, Mode::Fn) => <M as MT>::replace_function_with_other_function(fpi(c.func), fpi(c.fake)),
        (true, Mode::Bool(v)) => <M as MT>::replace_function_return_boolean(fpi(c.func), v),
    })
}

/// classes + non-triviality + oracle for one AArch64 case.
pub fn a64_check(rec: &mut Recorder, c: &A64Case) -> Result<(), String> {
    let disp = c.jit.wrapping_sub(c.func) as i64;
    let in_direct = disp >= -A64_REACH && disp < A64_REACH;
    let variant = if c.macos { "macos" } else { "linux" };
    let prop = rec.property.clone();
    let r = a64_install(c);
    let ev = shim::events();
    rec.eval(|| json!({"case": c, "disp": disp, "outcome": match &r { Ok(_) => "installed".to_string(), Err(m) => format!("refused: {m}") }}));
    rec.class(&format!("{variant}/{}", match (in_direct, c.mode) {
        (true, Mode::Fn) => "direct/fn",
        (true, Mode::Bool(_)) => "direct/bool",
        (false, Mode::Fn) => "beyond-direct/fn",
        (false, Mode::Bool(_)) => "beyond-direct/bool",
    }));
    let near_edge = (disp.abs() - A64_REACH).abs() <= 64;
    match r {
        Err(msg) => {
            // refused loudly: nothing may have been written at the entry
            if any_write_overlapping(&ev, c.func, c.func.wrapping_add(16)) {
                return rec.fail(&format!("{prop}/{variant}/refused-but-entry-written"), format!("install panicked ({msg}) after writing at the entry; case {c:?}"));
            }
            rec.count("refused", 1);
            if in_direct && !c.macos || c.macos {
                rec.count("refused_in_reach", 1);
                rec.class(&format!("{variant}/refused-in-reach"));
            }
            if near_edge {
                rec.nontrivial(&("refusal-near-edge", c.macos, disp));
            }
            Ok(())
        }
        Ok(g) => {
            rec.count("installed", 1);
            let sig = |s: &str| format!("{prop}/{variant}/{s}");
            // --- the guard describes exactly what was overwritten
            let patches = patches_at(&ev, c.func);
            if patches.len() != 1 {
                return rec.fail(&sig("entry-write-count"), format!("expected one entry write at {:#x}, saw {} (events {ev:?})", c.func, patches.len()));
            }
            let written = patches[0];
            if g.func_ptr != c.func || g.patch_size != written.len() || g.original_bytes.len() < g.patch_size {
                return rec.fail(&sig("guard-mismatch"), format!("guard {g:?} does not describe the {}-byte write at {:#x}", written.len(), c.func));
            }
            if g.original_bytes[..g.patch_size] != pre_bytes(c.salt, c.func, g.patch_size)[..] {
                return rec.fail(&sig("saved-bytes-wrong"), format!("saved bytes are not the previous content of [{:#x},+{})", c.func, g.patch_size));
            }
            if written.len() > 16 {
                return rec.fail(&sig("entry-too-long"), format!("{} bytes written at the entry", written.len()));
            }
            let alloc = ev.iter().find_map(|e| if let Event::Alloc { size, .. } = e { Some(*size) } else { None }).unwrap_or(0);
            // (an installation that needs no trampoline asks for none and owns none)
            let no_trampoline = g.jit_memory == 0 && !ev.iter().any(|e| matches!(e, Event::Alloc { .. }));
            if g.jit_memory != c.jit && !no_trampoline {
                return rec.fail(&sig("guard-jit-mismatch"), format!("guard.jit_memory {:#x} != allocated {:#x}", g.jit_memory, c.jit));
            }
            for e in &ev {
                if let Event::Inject { addr, bytes } = e {
                    if addr.wrapping_sub(c.jit) > alloc as u64 || addr.wrapping_sub(c.jit) + bytes.len() as u64 > alloc as u64 {
                        return rec.fail(&sig("trampoline-write-outside-allocation"), format!("write of {} bytes at {:#x} outside allocation [{:#x},+{alloc})", bytes.len(), addr, c.jit));
                    }
                }
            }
            if g.jit_size == 0 || g.jit_size > alloc.max(1) && alloc != 0 && g.jit_size > 4096 {
                return rec.fail(&sig("guard-jit-size"), format!("guard.jit_size {} vs allocation {}", g.jit_size, alloc));
            }
            // --- decode: entry
            let m = SimMem;
            let s1 = a64_run(&m, c.func, 8);
            let mut written_regs = s1.written.clone();
            let mut touched_sp = s1.touched_sp;
            let mut trace = s1.trace.clone();
            // where does the entry sequence transfer control to?
            let (arrived_at_jit, long_form, tail) = match (&s1.end, s1.hops.first()) {
                (_, Some(h)) if *h == c.jit => (true, false, None),
                (A64End::Br { value: Some(v), .. }, None) if *v == c.jit => (true, true, None),
                (end, hop) => (false, false, Some(format!("entry ends {end:?}, first hop {hop:?}"))),
            };
            if !arrived_at_jit {
                return rec.fail(&sig("entry-branch-wrong-destination"), format!("entry at {:#x} does not branch to the trampoline {:#x}: {} trace {trace:?}; case {c:?}", c.func, c.jit, tail.unwrap_or_default()));
            }
            // entry instructions must lie inside the saved range
            let entry_insns = if long_form { 3 } else { 1 };
            if entry_insns * 4 > g.patch_size {
                return rec.fail(&sig("entry-exceeds-saved-range"), format!("{entry_insns} entry instructions but patch_size {}", g.patch_size));
            }
            // --- decode: trampoline (when the direct branch was followed, a64_run continued into it)
            let s2 = if long_form { a64_run(&m, c.jit, 8) } else { a64_run(&m, c.jit, 8) };
            written_regs.extend(s2.written.iter().copied());
            touched_sp |= s2.touched_sp;
            trace.extend(s2.trace.iter().cloned());
            match c.mode {
                Mode::Fn => match &s2.end {
                    A64End::Br { value: Some(v), .. } if *v == c.fake => {}
                    other => {
                        return rec.fail(&sig("trampoline-wrong-destination"), format!("trampoline does not end in a branch to the fake {:#x}: {other:?}; trace {trace:?}", c.fake));
                    }
                },
                Mode::Bool(v) => match &s2.end {
                    A64End::Ret { reg: 30, .. } if s2.regs[0] == Some(v as u64) => {}
                    other => {
                        return rec.fail(&sig("boolean-stub-wrong"), format!("stub does not return {v}: end {other:?} x0={:?}; trace {trace:?}", s2.regs[0]));
                    }
                },
            }
            // --- register discipline
            if touched_sp {
                return rec.fail(&sig("touches-sp"), format!("sequence uses sp: {trace:?}"));
            }
            for r in &written_regs {
                let ok = (9..=17).contains(r) || (matches!(c.mode, Mode::Bool(_)) && *r == 0);
                if !ok {
                    return rec.fail(&sig(&format!("clobbers=x{r}")), format!("sequence writes x{r}: {trace:?}"));
                }
            }
            rec.class(&format!("{variant}/{}", if long_form { "entry=adrp-add-br" } else { "entry=b" }));
            rec.nontrivial(&("installed", c.macos, c.func, c.jit, c.fake, c.mode));
            Ok(())
        }
    }
    .and_then(|_| {
        // Linux: a displacement outside the reach of B must have been refused (it was either
        // refused above, or decoded to the right place which is impossible out of reach).
        Ok(())
    })
}

// =================================================================================================
// 32-bit ARM (C16)

#[derive(Clone, Debug, Serialize, Deserialize, Hash, PartialEq, Eq)]
pub struct ArmCase {
    /// function pointer value as Rust sees it (Thumb bit included)
    pub entry: u32,
    pub fake: u32,
    pub mode: Mode,
    pub salt: u64,
}

pub fn arm_case(modes: Vec<Mode>) -> impl Strategy<Value = ArmCase> {
    let base = prop_oneof![
        4 => any::<u32>(),
        1 => 4u32..0x1_0000,
        1 => (0xFFFF_0000u32..=0xFFFF_FFF0),
        1 => (any::<u32>(), prop_oneof![Just(0xFF0u32), Just(0xFF4), Just(0xFF8), Just(0xFFC), Just(0)]).prop_map(|(a, o)| (a & !0xFFF) | o),
    ];
    let kind = 0u8..3;
    let fake = prop_oneof![
        3 => any::<u32>(),
        1 => (any::<u16>()).prop_map(|h| (h as u32) << 16 | 0xFFFF),
        1 => (any::<u16>()).prop_map(|l| l as u32),
        1 => prop_oneof![Just(1u32), Just(0xFFFF_FFFF), Just(0x8000_0000), Just(0x8000_0001), Just(4)],
    ];
    (base, kind, fake, any::<bool>(), proptest::sample::select(weighted(modes)), any::<u64>()).prop_map(|(b, k, fake, fthumb, mode, salt)| {
        let b = (b & !3).clamp(8, 0xFFFF_FFE0);
        let entry = match k {
            0 => b,
            1 => b | 1,
            _ => b | 3,
        };
        let fake = if fthumb { fake | 1 } else { fake & !1 };
        ArmCase { entry, fake: fake.max(2), mode, salt }
    })
}

pub fn arm_install(c: &ArmCase) -> Result<GuardInfo, String> {
    use crate::s1_arm::injector_core::patch_arm::PatchArm as A;
    use crate::s1_arm::injector_core::patch_trait::PatchTrait as T;
    run_install(c.salt, &[], || match c.mode {
        Mode::Fn => <A as T>::replace_function_with_other_function(fpi(c.entry as u64), fpi(c.fake as u64)),
        Mode::Bool(v) => <A as T>::replace_function_return_boolean(fpi(c.entry as u64), v),
    })
}

/// Maps the low 32 bits of a host function address back to a callable host pointer (the arm
/// patcher truncates pointers with `as u32`; on the host its private `return_true` /
/// `return_false` live in this executable's text, whose upper 32 address bits we know).
fn host_fn_from_low32(lo: u32) -> Option<fn() -> bool> {
    let here = host_fn_from_low32 as usize as u64;
    let cand = (here & !0xFFFF_FFFF) | lo as u64;
    let (tlo, thi) = crate::text_range();
    if cand >= tlo && cand < thi {
        Some(unsafe { std::mem::transmute::<usize, fn() -> bool>(cand as usize) })
    } else {
        None
    }
}

pub fn arm_check(rec: &mut Recorder, c: &ArmCase) -> Result<(), String> {
    let thumb = c.entry & 1 == 1;
    let start = c.entry & !1;
    let kind = if !thumb { "A32" } else if start % 4 == 0 { "T32/0mod4" } else { "T32/2mod4" };
    let prop = rec.property.clone();
    let r = arm_install(c);
    let ev = shim::events();
    rec.eval(|| json!({"case": c, "kind": kind, "outcome": match &r { Ok(_) => "installed".to_string(), Err(m) => format!("refused: {m}") }}));
    rec.class(&format!("{kind}/{}", match c.mode { Mode::Fn => if c.fake & 1 == 1 { "fake=thumb" } else { "fake=arm" }, Mode::Bool(_) => "bool" }));
    let g = match r {
        Err(msg) => {
            if any_write_overlapping(&ev, start as u64, start as u64 + 16) {
                return rec.fail(&format!("{prop}/{kind}/refused-but-entry-written"), format!("install panicked ({msg}) after writing; case {c:?}"));
            }
            rec.count("refused", 1);
            return Ok(());
        }
        Ok(g) => g,
    };
    let sig = |s: &str| format!("{prop}/{}/{s}", if thumb { "T32" } else { "A32" });
    let writes: Vec<(u64, &Vec<u8>)> = ev
        .iter()
        .filter_map(|e| match e {
            Event::Patch { addr, bytes } | Event::Inject { addr, bytes } => Some((*addr, bytes)),
            _ => None,
        })
        .collect();
    if writes.len() != 1 || writes[0].0 != start as u64 {
        return rec.fail(&sig("entry-write"), format!("expected exactly one write at {start:#x}, saw {writes:?}"));
    }
    let wr = writes[0].1;
    if wr.len() != 12 {
        return rec.fail(&sig("patch-length"), format!("{} bytes written at the entry, statement says 12", wr.len()));
    }
    if g.func_ptr != start as u64 || g.patch_size != wr.len() || g.original_bytes.len() < g.patch_size {
        return rec.fail(&sig("guard-mismatch"), format!("guard (ptr {:#x}, size {}, saved {}) does not describe the {}-byte write at {start:#x}", g.func_ptr, g.patch_size, g.original_bytes.len(), wr.len()));
    }
    if g.original_bytes[..g.patch_size] != pre_bytes(c.salt, start as u64, g.patch_size)[..] {
        return rec.fail(&sig("saved-bytes-wrong"), format!("saved bytes are not the previous content of [{start:#x},+{})", g.patch_size));
    }
    let m = SimMem32;
    let out = arm_run(&m, start, if thumb { ArmState::T32 } else { ArmState::A32 }, 6);
    let value = match &out.end {
        ArmEnd::Bx { value: Some(v), .. } => *v,
        ArmEnd::LoadPc { value, .. } => *value,
        other => {
            return rec.fail(&sig("not-load-and-branch"), format!("entry does not decode to literal load + interworking branch: {other:?}; trace {:?}; bytes {wr:02x?}; case {c:?}", out.trace));
        }
    };
    // the literal that was read must be inside the 12 bytes just written
    for l in &out.literals {
        let off = l.wrapping_sub(start);
        if off > 8 {
            return rec.fail(&sig("literal-outside-patch"), format!("load reads {l:#x}, outside the written range [{start:#x},+12); trace {:?}", out.trace));
        }
    }
    match c.mode {
        Mode::Fn => {
            if value != c.fake {
                return rec.fail(&sig("wrong-destination"), format!("branch goes to {value:#x}, fake is {:#x}; trace {:?}; bytes {wr:02x?}; case {c:?}", c.fake, out.trace));
            }
        }
        Mode::Bool(v) => match host_fn_from_low32(value) {
            Some(f) => {
                if f() != v {
                    return rec.fail(&sig("boolean-wrong-value"), format!("forced boolean {v} branches to a function returning {}", !v));
                }
                rec.count("bool_stub_executed_on_host", 1);
            }
            None => rec.count("bool_stub_not_resolvable", 1),
        },
    }
    // every instruction executed lies inside the saved range (checked through literal+trace
    // addresses: the decoder never left [start, start+12) without a branch)
    // --- register discipline (AAPCS32: r4-r11 callee-saved, r9 = v6 on Linux; sp, lr live;
    //     r0-r3 carry arguments; only ip = r12 is free at a call boundary)
    // (judged under C16 only: the scratch-register question has one root cause)
    for r in out.written.iter().filter(|_| prop == "C16") {
        if *r != 12 {
            let what = match *r {
                0..=3 => "argument register",
                4..=11 => "callee-saved register",
                13 => "sp",
                14 => "lr",
                _ => "register",
            };
            rec.fail(&format!("C16/{}/clobbers=r{r}", if thumb { "T32" } else { "A32" }), format!("sequence writes {what} r{r}: {:?}", out.trace))?;
        }
    }
    rec.nontrivial(&("installed", c.entry, c.fake, c.mode));
    Ok(())
}

// =================================================================================================
// x86-64 (C01 in simulation: every address, incl. the Windows-style long entry)

#[derive(Clone, Debug, Serialize, Deserialize, Hash, PartialEq, Eq)]
pub struct X86Case {
    pub func: u64,
    pub jit: u64,
    pub fake: u64,
    pub mode: Mode,
    pub salt: u64,
}

fn rel32_edge() -> impl Strategy<Value = i64> {
    (prop_oneof![Just(i32::MAX as i64), Just(i32::MIN as i64)], -6i64..=6).prop_map(|(e, k)| e + k)
}

pub fn x86_case(modes: Vec<Mode>) -> impl Strategy<Value = X86Case> {
    let func = prop_oneof![
        4 => 0x1000u64..(1u64 << 47),
        1 => 0x1000u64..0x1000_0000,
        1 => (0x10u64..(1u64 << 35), 0xFF0u64..=0xFFF).prop_map(|(p, o)| (p << 12) | o),
        // any address of the lower half (a function cannot sit in the last bytes of the address
        // space: its entry slot would wrap around zero)
        1 => any::<u64>().prop_map(|a| (a & 0x7FFF_FFFF_FFFF_FFFF).max(0x1000)),
    ];
    // displacement of the trampoline relative to func+5
    let jd = prop_oneof![
        4 => -(1i64 << 27)..=(1i64 << 27),
        2 => rel32_edge(),
        1 => (log_uniform(46), any::<bool>()).prop_map(|(m, n)| if n { -(m as i64) } else { m as i64 }),
        1 => prop_oneof![Just(-(1i64 << 27)), Just(1i64 << 27), Just(0i64), Just(-5i64)],
    ];
    // displacement of the fake relative to jit+5
    let fd = prop_oneof![
        2 => -(1i64 << 30)..=(1i64 << 30),
        3 => rel32_edge(),
        2 => (log_uniform(47), any::<bool>()).prop_map(|(m, n)| if n { -(m as i64) } else { m as i64 }),
        1 => any::<i64>(),
    ];
    // one case in five: the fake at an *absolute* low address (bit 31 set or clear), whatever the
    // trampoline's position (32-bit immediates and sign extension live here)
    let abs_fake = prop::option::weighted(0.2, prop_oneof![2 => 0x8000_0000u64..=0xFFFF_FFFF, 1 => 0x1000u64..0x8000_0000, 1 => (0x7FFF_FFF0u64..0x8000_0010)]);
    (func, jd, fd, any::<bool>(), proptest::sample::select(weighted(modes)), any::<u64>(), abs_fake).prop_map(|(func, jd, fd, page, mode, salt, abs_fake)| {
        let mut jit = func.wrapping_add(5).wrapping_add(jd as u64);
        if page {
            // real trampolines are page aligned; keep the rel32 edge cases exact otherwise
            jit &= !0xFFF;
        }
        let jit = separate(func, jit.max(0x1000));
        let fake = abs_fake.unwrap_or(jit.wrapping_add(5).wrapping_add(fd as u64).max(1));
        X86Case { func, jit, fake, mode, salt }
    })
}

pub fn x86_install(c: &X86Case) -> Result<GuardInfo, String> {
    use crate::s1_amd64::injector_core::patch_amd64::PatchAmd64 as A;
    use crate::s1_amd64::injector_core::patch_trait::PatchTrait as T;
    run_install(c.salt, &[c.jit], || match c.mode {
        Mode::Fn => <A as T>::replace_function_with_other_function(fpi(c.func), fpi(c.fake)),
        Mode::Bool(v) => <A as T>::replace_function_return_boolean(fpi(c.func), v),
    })
}

pub fn x86_check(rec: &mut Recorder, prop: &str, c: &X86Case) -> Result<(), String> {
    let jd = c.jit.wrapping_sub(c.func.wrapping_add(5)) as i64;
    let fd = c.fake.wrapping_sub(c.jit.wrapping_add(5)) as i64;
    let fits = |d: i64| d >= i32::MIN as i64 && d <= i32::MAX as i64;
    let near = |d: i64| (d - i32::MAX as i64).abs() <= 8 || (d - i32::MIN as i64).abs() <= 8;
    let r = x86_install(c);
    let ev = shim::events();
    rec.eval(|| json!({"case": c, "entry_disp": jd, "fake_disp": fd, "outcome": match &r { Ok(_) => "installed".to_string(), Err(m) => format!("refused: {m}") }}));
    rec.class(&format!("entry={}/tramp={}/{}", if fits(jd) { "rel32" } else { "long" }, if fits(fd) { "rel32" } else { "long" }, match c.mode { Mode::Fn => "fn", Mode::Bool(_) => "bool" }));
    let sig = |s: &str| format!("{prop}/sim-amd64/{s}");
    let g = match r {
        Err(msg) => {
            if any_write_overlapping(&ev, c.func, c.func.wrapping_add(16)) {
                return rec.fail(&sig("refused-but-entry-written"), format!("install panicked ({msg}) after writing at the entry; case {c:?}"));
            }
            rec.count("refused", 1);
            return Ok(());
        }
        Ok(g) => g,
    };
    let patches = patches_at(&ev, c.func);
    if patches.len() != 1 {
        return rec.fail(&sig("entry-write-count"), format!("expected one entry write at {:#x}, saw {}", c.func, patches.len()));
    }
    let wr = patches[0];
    if g.func_ptr != c.func || g.patch_size != wr.len() || g.original_bytes.len() < g.patch_size {
        return rec.fail(&sig("guard-mismatch"), format!("guard (ptr {:#x} size {} saved {}) vs {}-byte write at {:#x}", g.func_ptr, g.patch_size, g.original_bytes.len(), wr.len(), c.func));
    }
    if g.original_bytes[..g.patch_size] != pre_bytes(c.salt, c.func, g.patch_size)[..] {
        return rec.fail(&sig("saved-bytes-wrong"), "saved bytes are not the previous content of the overwritten range".into());
    }
    if wr.len() > 16 {
        return rec.fail(&sig("entry-too-long"), format!("{} bytes written at the entry (slot is 16)", wr.len()));
    }
    let alloc = ev.iter().find_map(|e| if let Event::Alloc { size, .. } = e { Some(*size) } else { None }).unwrap_or(0);
    // (an installation that needs no trampoline asks for none and owns none)
    let no_trampoline = g.jit_memory == 0 && !ev.iter().any(|e| matches!(e, Event::Alloc { .. }));
    if g.jit_memory != c.jit && !no_trampoline {
        return rec.fail(&sig("guard-jit-mismatch"), format!("guard.jit_memory {:#x} != allocation {:#x}", g.jit_memory, c.jit));
    }
    for e in &ev {
        if let Event::Inject { addr, bytes } = e {
            if addr.wrapping_sub(c.jit) > alloc as u64 || addr.wrapping_sub(c.jit) + bytes.len() as u64 > alloc as u64 {
                return rec.fail(&sig("trampoline-write-outside-allocation"), format!("{} bytes at {:#x} vs allocation [{:#x},+{alloc})", bytes.len(), addr, c.jit));
            }
        }
    }
    if !no_trampoline && (g.jit_size == 0 || g.jit_size < alloc.min(1)) {
        return rec.fail(&sig("guard-jit-size"), format!("guard.jit_size {}", g.jit_size));
    }
    let m = SimMem;
    let stop: Vec<u64> = if c.mode == Mode::Fn { vec![c.fake] } else { vec![] };
    let out = x86_follow(&m, c.func, &stop, 8);
    // instructions decoded at the entry must lie inside the saved range, those in the
    // trampoline inside the allocation
    for (a, l) in &out.insns {
        let in_entry = *a >= c.func && a.wrapping_add(*l as u64) <= c.func.wrapping_add(g.patch_size as u64);
        let in_tramp = *a >= c.jit && a.wrapping_add(*l as u64) <= c.jit.wrapping_add(alloc as u64);
        if !in_entry && !in_tramp {
            return rec.fail(&sig("executes-unwritten-bytes"), format!("instruction at {a:#x}+{l} is neither inside the saved entry range nor inside the trampoline; trace {:?}; case {c:?}", out.trace));
        }
    }
    match c.mode {
        Mode::Fn => {
            if out.end != (X86End::Arrived { at: c.fake }) {
                return rec.fail(&sig("wrong-destination"), format!("control does not reach the fake {:#x}: {:?}; trace {:?}; case {c:?}", c.fake, out.end, out.trace));
            }
        }
        Mode::Bool(v) => match out.end {
            X86End::Ret { rax: Some(x), .. } if x & 0xFF == v as u64 => {}
            ref other => {
                return rec.fail(&sig("boolean-stub-wrong"), format!("stub does not return {v}: {other:?}; trace {:?}", out.trace));
            }
        },
    }
    if !fits(jd) || !fits(fd) || near(jd) || near(fd) || c.func & 0xFFF > 0xFFB || c.func < (1 << 27) {
        rec.nontrivial(&("installed", c.func, c.jit, c.fake, c.mode));
    }
    Ok(())
}

/// Fn as often as both booleans together.
fn weighted(modes: Vec<Mode>) -> Vec<Mode> {
    let mut v = modes.clone();
    let bools = modes.iter().filter(|m| matches!(m, Mode::Bool(_))).count();
    if modes.contains(&Mode::Fn) {
        for _ in 1..bools.max(1) {
            v.push(Mode::Fn);
        }
    }
    v
}
