//! Trampoline-placement cases (C11): generated occupancy of the +/-128 MiB neighbourhood of a
//! target, realised either through the interposer's layout model (required for MAP_FAILED and
//! adversarial fallbacks) or with the real kernel (the window is a PROT_NONE reservation with
//! holes punched; the interposer only records).

use crate::arena::{Arena, PAGE};
use crate::driver::{signal_name, Exec};
use crate::interpose as ip;
use crate::mem::ProcMem;
use crate::place::synth_base;
use crate::targets::{self, Class};
use injectorpp::interface::injector::*;
use proptest::prelude::*;
use serde::{Deserialize, Serialize};
use serde_json::{json, Value};
use std::collections::BTreeMap;
use std::sync::atomic::Ordering::SeqCst;
use vcommon::decoders::{x86_follow, X86End};
use vcommon::Recorder;

pub const WINDOW: i64 = 0x800_0000; // 128 MiB
pub const WPAGES: i64 = WINDOW / 4096;

#[derive(Serialize, Deserialize, Clone, Debug, Hash, PartialEq, Eq)]
pub enum Layout {
    /// nothing modelled: the kernel answers
    Kernel,
    /// no free page anywhere in the window
    Full,
    /// full except one free page at this page offset from floor(target)
    OneFree(i64),
    /// free pages at these page offsets
    Some(Vec<i64>),
}

#[derive(Serialize, Deserialize, Clone, Debug, Hash, PartialEq, Eq)]
pub struct LayoutCase {
    pub class: u8,
    pub page: u64,
    pub off: u16,
    pub layout: Layout,
    /// interpose::FB_*
    pub fallback: u8,
    pub near_index: u8,
    /// realise with the real kernel (PROT_NONE reservation + holes) instead of the model
    pub real_kernel: bool,
    pub boolean: bool,
    /// the whole case runs from tear-down code executed while the thread unwinds from a failed
    /// test body (`std::thread::panicking()` is true throughout)
    #[serde(default)]
    pub in_teardown: bool,
}

#[derive(Serialize, Deserialize, Clone, Debug, Default)]
pub struct LayoutObs {
    pub status: String,
    pub why: String,
    pub target: u64,
    pub panic: Option<String>,
    pub pre: Vec<u8>,
    pub during: Vec<u8>,
    pub post: Vec<u8>,
    pub decoded_tramp: Option<u64>,
    pub decode: String,
    /// mappings obtained during the install and not given back by the end of it
    pub outstanding_after_install: Vec<(u64, u64)>,
    pub outstanding_after_drop: Vec<(u64, u64)>,
    pub anomalies: Vec<String>,
    pub mmap_calls: u64,
    /// the entry holds the whole replacement (no branch, no mapping kept)
    #[serde(default)]
    pub in_place: bool,
    pub mmap_granted: u64,
    pub munmaps: u64,
    pub first_hints: Vec<u64>,
    pub call_value: Option<u64>,
    pub clipped: bool,
    /// protection ("rwx" letters) of the page(s) holding the target's first 16 bytes before the
    /// installation and right after it
    #[serde(default)]
    pub prot_pre: Vec<String>,
    #[serde(default)]
    pub prot_during: Vec<String>,
}

fn prot_of(addr: usize) -> Vec<String> {
    let m = crate::maps::maps();
    let mut pages = vec![addr & !0xFFF];
    if (addr + 15) & !0xFFF != pages[0] {
        pages.push((addr + 15) & !0xFFF);
    }
    pages
        .iter()
        .map(|p| match m.iter().find(|x| (*p as u64) >= x.lo && (*p as u64) < x.hi) {
            Some(x) => format!("{}{}{}", if x.r { 'r' } else { '-' }, if x.w { 'w' } else { '-' }, if x.x { 'x' } else { '-' }),
            None => "unmapped".to_string(),
        })
        .collect()
}

fn account(evs: &[ip::Ev], live: &mut BTreeMap<u64, u64>, anomalies: &mut Vec<String>, granted: &mut u64, unmaps: &mut u64) {
    for e in evs {
        match e.kind {
            ip::Kind::Mmap if e.ret != ip::MAP_FAILED as u64 => {
                *granted += 1;
                live.insert(e.ret, e.a1);
            }
            ip::Kind::Munmap => {
                *unmaps += 1;
                match live.remove(&e.a0) {
                    Some(len) => {
                        if e.a1 == 0 || (e.a1 + 4095) & !4095 != (len + 4095) & !4095 || e.ret != 0 {
                            if anomalies.len() < 8 {
                                anomalies.push(format!("munmap({:#x},{}) ret {} for a mapping of length {len}", e.a0, e.a1, e.ret as i64));
                            }
                        }
                    }
                    None => {
                        if anomalies.len() < 8 {
                            anomalies.push(format!("munmap({:#x},{}) of an address that is not a live mapping of the injector (foreign or already freed)", e.a0, e.a1));
                        }
                    }
                }
            }
            _ => {}
        }
    }
}

pub fn execute(c: &LayoutCase) -> LayoutObs {
    if c.in_teardown {
        crate::worker::while_unwinding(|| execute_inner(c))
    } else {
        execute_inner(c)
    }
}

fn execute_inner(c: &LayoutCase) -> LayoutObs {
    let mut o = LayoutObs::default();
    ip::plan_reset();
    ip::log_clear();
    let base = synth_base(c.class, c.page) as usize;
    let Some(a) = Arena::map(base, 2 * PAGE) else {
        o.status = "discarded".into();
        o.why = "arena not mappable".into();
        return o;
    };
    let addr = base + (c.off as usize % PAGE);
    let id: u32 = if c.boolean { 0 } else { 0x7B01 };
    a.put_ret_id(addr, id);
    a.seal();
    o.target = addr as u64;
    o.clipped = (addr as i64) < WINDOW;
    let t = targets::synthetic_target(addr, if c.boolean { Class::B } else { Class::U }, id as u64, "layout-target".into());
    let floor = (addr & !0xFFF) as i64;
    let offsets: Vec<i64> = match &c.layout {
        Layout::Kernel | Layout::Full => vec![],
        Layout::OneFree(p) => vec![*p],
        Layout::Some(v) => v.clone(),
    };
    let mut free: Vec<u64> = offsets.iter().map(|p| floor + p * 4096).filter(|p| *p >= 0x10000 && *p != base as i64 && *p != (base + PAGE) as i64).map(|p| p as u64).collect();
    free.sort();
    free.dedup();
    // ---- realisation
    let mut reservation: Vec<(usize, usize)> = vec![];
    if c.layout != Layout::Kernel {
        if c.real_kernel {
            // reserve the whole window (except the arena and the holes) as PROT_NONE
            let lo = ((floor - WINDOW - 2 * 4096).max(0x10000)) as usize;
            let hi = (floor + WINDOW + 3 * 4096) as usize;
            let mut cuts: Vec<usize> = free.iter().map(|p| *p as usize).collect();
            cuts.push(base);
            cuts.push(base + PAGE);
            cuts.sort();
            let mut start = lo;
            let mut ok = true;
            for cut in cuts.iter().chain(std::iter::once(&hi)) {
                if *cut > start {
                    let len = cut - start;
                    let flags = libc::MAP_PRIVATE | libc::MAP_ANONYMOUS | libc::MAP_NORESERVE | 0x100000;
                    let r = unsafe { ip::sys_mmap(start, len, libc::PROT_NONE, flags, -1, 0) };
                    if r != start {
                        if r != ip::MAP_FAILED {
                            unsafe { ip::sys_munmap(r, len) };
                        }
                        ok = false;
                        break;
                    }
                    reservation.push((start, len));
                }
                start = cut + PAGE;
            }
            if !ok {
                for (s, l) in &reservation {
                    unsafe { ip::sys_munmap(*s, *l) };
                }
                o.status = "discarded".into();
                o.why = "window not reservable".into();
                return o;
            }
            ip::MODE.store(ip::MODE_PASS, SeqCst);
        } else {
            *ip::FREE_PAGES.lock().unwrap() = free.clone();
            ip::FALLBACK.store(c.fallback % 3, SeqCst);
            ip::NEAR_INDEX.store(c.near_index as usize, SeqCst);
            ip::MODE.store(ip::MODE_LAYOUT, SeqCst);
        }
    }
    o.pre = crate::mem::read_direct(addr, 32);
    o.prot_pre = prot_of(addr);
    crate::worker::phase("install");
    let r = std::panic::catch_unwind(std::panic::AssertUnwindSafe(|| {
        ip::sut(|| {
            let mut inj = InjectorPP::new();
            if c.boolean {
                inj.when_called((t.checked)()).will_return_boolean(true);
            } else {
                inj.when_called((t.checked)()).will_execute_raw(injectorpp::func!(fn (targets::f_u1)() -> u64));
            }
            inj
        })
    }));
    ip::MODE.store(ip::MODE_PASS, SeqCst);
    o.mmap_calls = ip::MMAP_CALLS.load(SeqCst);
    o.during = crate::mem::read_direct(addr, 32);
    o.prot_during = prot_of(addr);
    let evs = ip::log_take();
    o.first_hints = evs.iter().filter(|e| e.kind == ip::Kind::Mmap).take(3).map(|e| e.a0).collect();
    let mut live = BTreeMap::new();
    account(&evs, &mut live, &mut o.anomalies, &mut o.mmap_granted, &mut o.munmaps);
    o.outstanding_after_install = live.iter().map(|(a, l)| (*a, *l)).collect();
    match r {
        Err(_) => {
            o.status = "refused".into();
            o.panic = Some(crate::worker::last_panic());
        }
        Ok(inj) => {
            o.status = "installed".into();
            let m = ProcMem::new();
            let out = x86_follow(&m, addr as u64, &[], 1);
            o.decode = format!("{:?}", out.trace);
            o.decoded_tramp = out.hops.first().copied();
            // call only if the entry leads into the one mapping that was kept
            if let Some(d) = o.decoded_tramp {
                // (or nothing was kept and the entry leads straight to the fake)
                if live.contains_key(&(d & !0xFFF)) || live.is_empty() {
                    let full = x86_follow(&m, addr as u64, &[targets::f_u1 as fn() -> u64 as usize as u64], 6);
                    // (bytes the decoder does not know are not a verdict: the isolated worker runs
                    // the call and the returned value decides)
                    if matches!(full.end, X86End::Arrived { .. } | X86End::Ret { rax: Some(_), .. } | X86End::Unknown { .. } | X86End::HopLimit) {
                        crate::worker::phase("call");
                        o.call_value = Some((t.call)());
                    }
                }
            }
            if o.decoded_tramp.is_none() && live.is_empty() {
                // nothing kept and no branch at the entry: the entry itself may be the whole stub
                // (a forced boolean written in place); the call decides
                let full = x86_follow(&m, addr as u64, &[targets::f_u1 as fn() -> u64 as usize as u64], 6);
                if matches!(full.end, X86End::Ret { rax: Some(_), .. } | X86End::Unknown { .. } | X86End::HopLimit) {
                    o.in_place = true;
                    crate::worker::phase("call");
                    o.call_value = Some((t.call)());
                }
            }
            crate::worker::phase("drop");
            let _ = std::panic::catch_unwind(std::panic::AssertUnwindSafe(|| ip::sut(|| drop(inj))));
            let evs = ip::log_take();
            account(&evs, &mut live, &mut o.anomalies, &mut o.mmap_granted, &mut o.munmaps);
        }
    }
    o.outstanding_after_drop = live.iter().map(|(a, l)| (*a, *l)).collect();
    o.post = crate::mem::read_direct(addr, 32);
    // release anything the library leaked so that the worker's address space stays clean
    for (a, l) in &live {
        unsafe { ip::sys_munmap(*a as usize, *l as usize) };
    }
    for (s, l) in &reservation {
        unsafe { ip::sys_munmap(*s, *l) };
    }
    drop(a);
    o
}

pub fn strategy() -> impl Strategy<Value = LayoutCase> {
    let off = prop_oneof![2 => 0u16..0x1000, 2 => Just(0u16), 1 => 0xFF0u16..=0xFFF];
    let one = prop_oneof![
        4 => prop_oneof![Just(-WPAGES - 1), Just(-WPAGES), Just(-WPAGES + 1), Just(WPAGES - 1), Just(WPAGES), Just(WPAGES + 1)],
        3 => -WPAGES..=WPAGES,
        1 => prop_oneof![Just(-1i64), Just(2i64), Just(3i64)],
    ];
    let layout = prop_oneof![
        1 => Just(Layout::Kernel),
        2 => Just(Layout::Full),
        5 => one.prop_map(Layout::OneFree),
        2 => prop::collection::vec(-WPAGES - 2..=WPAGES + 2, 1..24).prop_map(Layout::Some),
    ];
    (prop_oneof![3 => Just(0u8), 1 => Just(1u8), 2 => Just(4u8), 1 => Just(2u8)], any::<u64>(), off, layout, 0u8..3, any::<u8>(), prop::bool::weighted(0.04), prop::bool::weighted(0.2)).prop_map(|(class, page, off, layout, fallback, near_index, real_kernel, boolean)| LayoutCase { class, page, off, layout, fallback, near_index, real_kernel, boolean, in_teardown: false })
    .prop_flat_map(|c| (Just(c), prop::bool::weighted(0.07)).prop_map(|(mut c, t)| {
        c.in_teardown = t;
        c
    }))
}

pub fn judge(rec: &mut Recorder, c: &LayoutCase, ex: Exec, _hello: &Value) -> Result<(), String> {
    let o: LayoutObs = match ex {
        Exec::Timeout => {
            rec.count("watchdog", 1);
            if rec.counters.get("watchdog").copied().unwrap_or(0) > 3 {
                rec.inconclusive.push("worker watchdog expired repeatedly".into());
            }
            return Ok(());
        }
        Exec::Died { signal, code, phase, stderr_tail } => {
            rec.eval(|| json!({"case": c, "outcome": "worker died"}));
            let s = signal.map(signal_name).unwrap_or("exit");
            return rec.fail(&format!("C11/native/died/{s}/{phase}"), format!("worker died ({s} code {code:?}) in phase '{phase}' while executing {c:?}; stderr: {stderr_tail}"));
        }
        Exec::Obs(v) => {
            if let Some(e) = v.get("harness_error") {
                rec.inconclusive.push(format!("harness error: {e}"));
                return Ok(());
            }
            match serde_json::from_value(v) {
                Ok(o) => o,
                Err(e) => {
                    rec.inconclusive.push(format!("bad observation: {e}"));
                    return Ok(());
                }
            }
        }
    };
    if o.status == "discarded" {
        rec.count("discarded", 1);
        return Ok(());
    }
    if c.in_teardown {
        rec.class("case-inside-tear-down-while-unwinding");
    }
    rec.eval(|| json!({"case": c, "target": format!("{:#x}", o.target), "status": o.status, "mmap_calls": o.mmap_calls, "granted": o.mmap_granted, "given_back": o.munmaps, "trampoline": o.decoded_tramp.map(|t| format!("{t:#x}")), "first_hints": o.first_hints}));
    let lname = match &c.layout {
        Layout::Kernel => "kernel".to_string(),
        Layout::Full => "full".to_string(),
        Layout::OneFree(p) => format!("one-free{}", if p.abs() >= WPAGES - 1 { "/extreme" } else { "" }),
        Layout::Some(_) => "sparse".to_string(),
    };
    let real = if c.real_kernel && c.layout != Layout::Kernel { "real-kernel" } else if c.layout == Layout::Kernel { "kernel" } else { ["model/far-fallback", "model/fail", "model/near-fallback"][c.fallback as usize % 3] };
    rec.class(&format!("{lname}/{real}/{}{}", o.status, if o.clipped { "/clipped-window" } else { "" }));
    let sig = |s: &str| format!("C11/native/{s}");
    if !o.anomalies.is_empty() {
        return rec.fail(&sig("bad-release"), format!("{:?}; case {c:?}", o.anomalies));
    }
    if o.status == "refused" {
        rec.count("refused", 1);
        if o.during != o.pre {
            return rec.fail(&sig("refused-but-target-modified"), format!("installation panicked ({:?}) but the target changed; case {c:?}", o.panic));
        }
        if o.prot_during != o.prot_pre && !o.prot_pre.is_empty() {
            return rec.fail(&sig("refused-but-target-protection-changed"), format!("installation panicked ({:?}) with the target's bytes unchanged, but the protection of the page(s) holding its entry went from {:?} to {:?}: the refused function was not left untouched (its code is now writable); case {c:?}", o.panic, o.prot_pre, o.prot_during));
        }
        if !o.outstanding_after_install.is_empty() {
            return rec.fail(&sig("rejected-placement-left-mapped"), format!("installation panicked ({:?}) and left {} mapping(s) behind: {:x?} ({} obtained, {} given back); case {c:?}", o.panic, o.outstanding_after_install.len(), o.outstanding_after_install, o.mmap_granted, o.munmaps));
        }
    } else {
        rec.count("installed", 1);
        let tr = match o.decoded_tramp {
            Some(tr) => tr,
            None if o.in_place => 0,
            None => return rec.fail(&sig("entry-not-a-branch"), format!("entry does not decode to a branch: {}; case {c:?}", o.decode)),
        };
        // whatever the installation keeps must be within range of the target (a placement that
        // was tried and is out of range must have been given back), and the entry must branch
        // into one of the kept mappings
        for (a, _l) in &o.outstanding_after_install {
            if a.abs_diff(o.target) > WINDOW as u64 {
                return rec.fail(&sig("rejected-placement-left-mapped"), format!("after a successful installation an out-of-range mapping {a:#x} (target {:#x}) is still mapped; outstanding {:x?}; case {c:?}", o.target, o.outstanding_after_install));
            }
        }
        // (an installation that keeps no mapping may branch straight to the fake: then the call
        // below decides)
        let straight = o.in_place || (o.outstanding_after_install.is_empty() && o.mmap_granted == o.munmaps);
        if !straight && !o.outstanding_after_install.iter().any(|(ta, tl)| tr >= *ta && tr < ta + (*tl).max(1).max(4096)) {
            return rec.fail(&sig("branch-misses-trampoline"), format!("entry branches to {tr:#x}, which is not inside a mapping the injector kept ({:x?}); case {c:?}", o.outstanding_after_install));
        }
        let expect = if c.boolean { 1 } else { 1001 };
        if o.call_value != Some(expect) {
            return rec.fail(&sig("call-wrong"), format!("call returned {:?}, expected {expect}; decode {}; case {c:?}", o.call_value, o.decode));
        }
        if !o.outstanding_after_drop.is_empty() {
            return rec.fail(&sig("trampoline-not-released"), format!("after the drop {:x?} still mapped; case {c:?}", o.outstanding_after_drop));
        }
        if o.post != o.pre {
            return rec.fail(&sig("not-restored"), format!("target not restored; case {c:?}"));
        }
    }
    let rejected = o.mmap_calls > 1;
    let extreme = matches!(&c.layout, Layout::OneFree(p) if p.abs() >= WPAGES - 1);
    if rejected || extreme || o.clipped {
        rec.nontrivial(&(o.target, &c.layout, c.fallback, c.real_kernel, &o.status));
    }
    Ok(())
}
