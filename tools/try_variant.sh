#!/bin/bash
# try_variant.sh <dir-with-a-tree> [props...]: run the quick checks against a tree that is
# supposed to SATISFY the properties (a refactor); every non-zero exit is reported with its first
# message.  Used to look for false alarms.
set -u
src=$1; shift
props="${*:-C01 C02 C03 C04 C05 C06 C07 C08 C09 C10 C11 C12 C13 C14 C15 C16 C17}"
d=/var/tmp/verif-variant-$$
rm -rf $d; mkdir -p $d
cp -r $src/Cargo.toml $src/Cargo.lock $src/src $src/tests $d/
rm -f $d/tests/seed_demo.rs
V=$(cd "$(dirname "$0")/.." && pwd)
cd $V
for p in $props; do
  VERIF_REPO=$d VERIF_EVIDENCE_DIR=$V/work/audit-evidence ./check $p quick > /tmp/variant_$p.txt 2>&1; rc=$?
  if [ $rc -ne 0 ]; then
    echo "== $p exit $rc"
    f=$(grep "^VIOLATION" /tmp/variant_$p.txt | head -1 | sed 's/.*replay=//')
    [ -n "$f" ] && python3 -c "import json; d=json.load(open('$f')); print(d['message'][:900])"
    grep "^inconclusive" /tmp/variant_$p.txt | head -2 | cut -c1-400
  else
    echo "== $p ok"
  fi
done
rm -rf $d
