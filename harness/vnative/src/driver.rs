//! Driver side: owns the worker child processes.  A case is sent as one JSON line; the worker
//! answers with one JSON line.  A worker that dies while executing a case makes that case a
//! failing case (the signal is the observation); a worker that does not answer within the
//! watchdog is killed and the case is *inconclusive*, never a violation.

use serde_json::Value;
use std::io::{BufRead, BufReader, Write};
use std::os::unix::process::ExitStatusExt;
use std::process::{Child, ChildStdin, Command, Stdio};
use std::sync::mpsc::{channel, Receiver, RecvTimeoutError};
use std::time::Duration;

pub enum Exec {
    Obs(Value),
    Died { signal: Option<i32>, code: Option<i32>, phase: String, stderr_tail: String },
    Timeout,
}

pub struct Worker {
    child: Child,
    stdin: ChildStdin,
    rx: Receiver<String>,
    stderr_path: std::path::PathBuf,
    pub spawned: u64,
    pub label: String,
    pub last_phase: String,
    pub hello: Value,
    /// requests sent to this worker *process* since it was spawned (bounded): a failure that
    /// depends on what earlier cases left behind in the process is reproduced by replaying them
    pub history: Vec<String>,
}

impl Worker {
    pub fn spawn(label: &str) -> Worker {
        let exe = std::env::current_exe().expect("current_exe");
        let dir = vcommon::verif_dir().join("work").join("worker-logs");
        let _ = std::fs::create_dir_all(&dir);
        let stderr_path = dir.join(format!("{label}-{}.stderr", std::process::id()));
        let errf = std::fs::File::create(&stderr_path).expect("stderr file");
        let mut child = Command::new(exe)
            .arg("worker")
            .stdin(Stdio::piped())
            .stdout(Stdio::piped())
            .stderr(Stdio::from(errf))
            .spawn()
            .expect("spawn worker");
        let stdin = child.stdin.take().unwrap();
        let stdout = child.stdout.take().unwrap();
        let (tx, rx) = channel();
        std::thread::spawn(move || {
            let r = BufReader::new(stdout);
            for line in r.lines() {
                match line {
                    Ok(l) => {
                        if tx.send(l).is_err() {
                            break;
                        }
                    }
                    Err(_) => break,
                }
            }
        });
        let mut w = Worker { child, stdin, rx, stderr_path, spawned: 1, label: label.to_string(), last_phase: String::new(), hello: Value::Null, history: Vec::new() };
        // first line: calibration record
        if let Ok(l) = w.rx.recv_timeout(Duration::from_secs(60)) {
            w.hello = serde_json::from_str::<Value>(&l).map(|v| v["hello"].clone()).unwrap_or(Value::Null);
        }
        w
    }

    fn respawn(&mut self) {
        let _ = self.child.kill();
        let _ = self.child.wait();
        let n = self.spawned + 1;
        let label = self.label.clone();
        let phase = self.last_phase.clone();
        *self = Worker::spawn(&label);
        self.spawned = n;
        self.last_phase = phase;
    }

    /// Replace the worker by a fresh process (used by engines whose cases must be complete
    /// process histories, e.g. call counters that live in statics).
    pub fn retire(&mut self) {
        self.respawn();
    }

    fn stderr_tail(&self) -> String {
        let s = std::fs::read_to_string(&self.stderr_path).unwrap_or_default();
        let n = s.len();
        s[n.saturating_sub(1500)..].to_string()
    }

    /// Execute one request.  After Died/Timeout a fresh worker is already running.
    pub fn exec(&mut self, req: &Value, timeout: Duration) -> Exec {
        // a worker that retired itself after the previous case (exit 77: it had left a real
        // target modified, which that case's judge has already seen) is replaced silently
        if let Ok(Some(st)) = self.child.try_wait() {
            if st.code() == Some(77) {
                self.respawn();
            }
        }
        let r = self.exec_once(req, timeout);
        if let Exec::Died { code: Some(77), .. } = r {
            // exit 77 is only ever taken *after* answering: this request was not processed
            return self.exec_once(req, timeout);
        }
        r
    }

    fn exec_once(&mut self, req: &Value, timeout: Duration) -> Exec {
        let line = serde_json::to_string(req).unwrap();
        if self.history.len() < 600 {
            self.history.push(line.clone());
        }
        if writeln!(self.stdin, "{line}").is_err() || self.stdin.flush().is_err() {
            // worker already gone (e.g. died after answering the previous case)
            let st = self.child.wait().ok();
            let tail = self.stderr_tail();
            self.respawn();
            return Exec::Died { signal: st.and_then(|s| s.signal()), code: st.and_then(|s| s.code()), phase: "between-cases".into(), stderr_tail: tail };
        }
        self.last_phase.clear();
        let deadline = std::time::Instant::now() + timeout;
        let next = loop {
            let left = deadline.saturating_duration_since(std::time::Instant::now());
            match self.rx.recv_timeout(left) {
                Ok(l) if l.starts_with("#phase ") => {
                    self.last_phase = l[7..].to_string();
                    continue;
                }
                other => break other,
            }
        };
        match next {
            Ok(l) => match serde_json::from_str::<Value>(&l) {
                Ok(v) => Exec::Obs(v),
                Err(e) => Exec::Obs(serde_json::json!({"harness_error": format!("bad json from worker: {e}: {l}")})),
            },
            Err(RecvTimeoutError::Timeout) => {
                let _ = self.child.kill();
                let _ = self.child.wait();
                self.respawn();
                Exec::Timeout
            }
            Err(RecvTimeoutError::Disconnected) => {
                let st = self.child.wait().ok();
                let tail = self.stderr_tail();
                let phase = self.last_phase.clone();
                self.respawn();
                Exec::Died { signal: st.and_then(|s| s.signal()), code: st.and_then(|s| s.code()), phase, stderr_tail: tail }
            }
        }
    }
}

impl Drop for Worker {
    fn drop(&mut self) {
        let _ = self.child.kill();
        let _ = self.child.wait();
        let _ = std::fs::remove_file(&self.stderr_path);
    }
}

pub fn signal_name(s: i32) -> &'static str {
    match s {
        4 => "SIGILL",
        5 => "SIGTRAP",
        6 => "SIGABRT",
        7 => "SIGBUS",
        8 => "SIGFPE",
        9 => "SIGKILL",
        11 => "SIGSEGV",
        _ => "signal",
    }
}
