//! `vsim selftest`: differential check of the independent decoders (vcommon::decoders) against
//! `llvm-mc --disassemble` for every instruction form they recognise, over a golden list and a
//! seeded sample of field values.  A disagreement is a *harness* fault (exit 2), never a
//! violation of a property.

use std::io::Write;
use std::process::{Command, Stdio};
use vcommon::decoders::*;

struct Buf(Vec<u8>);
impl Mem for Buf {
    fn byte(&self, a: u64) -> u8 {
        self.0.get(a as usize).copied().unwrap_or(0)
    }
}

fn llvm_mc(triple: &str, bytes: &[u8], extra: &[&str]) -> Option<Vec<String>> {
    let exe = ["llvm-mc-14", "llvm-mc"].iter().find(|e| Command::new(e).arg("--version").stdout(Stdio::null()).stderr(Stdio::null()).status().is_ok())?;
    let mut c = Command::new(exe);
    c.arg("--disassemble").arg(format!("--triple={triple}"));
    for e in extra {
        c.arg(e);
    }
    let mut ch = c.stdin(Stdio::piped()).stdout(Stdio::piped()).stderr(Stdio::null()).spawn().ok()?;
    let txt: String = bytes.iter().map(|b| format!("{b:#04x} ")).collect();
    ch.stdin.take()?.write_all(txt.as_bytes()).ok()?;
    let out = ch.wait_with_output().ok()?;
    let s = String::from_utf8_lossy(&out.stdout).to_string();
    Some(s.lines().map(|l| l.trim().replace('\t', " ")).filter(|l| !l.is_empty() && !l.starts_with('.')).collect())
}

fn num(s: &str) -> Option<i128> {
    let s = s.trim().trim_start_matches('#');
    let (neg, s) = if let Some(r) = s.strip_prefix('-') { (true, r) } else { (false, s) };
    let v = if let Some(h) = s.strip_prefix("0x") { i128::from_str_radix(h, 16).ok()? } else { s.parse::<i128>().ok()? };
    Some(if neg { -v } else { v })
}

/// canonical form of one llvm-mc line for the forms we care about
fn canon_llvm_a64(l: &str) -> String {
    let l = l.replace(',', " ");
    let t: Vec<&str> = l.split_whitespace().collect();
    match t.as_slice() {
        ["b", off] => format!("b {}", num(off).unwrap_or(i128::MAX)),
        ["nop"] => "nop".into(),
        ["mov", rd, imm] if rd.starts_with('x') && imm.starts_with('#') => format!("movz {rd} {}", num(imm).unwrap_or(-1)),
        ["mov", rd, imm] if rd.starts_with('w') && imm.starts_with('#') => format!("movzw {rd} {}", num(imm).unwrap_or(-1)),
        ["movz", rd, imm] => format!("{} {rd} {}", if rd.starts_with('w') { "movzw" } else { "movz" }, num(imm).unwrap_or(-1)),
        ["movz", rd, imm, "lsl", sh] => format!("{} {rd} {}", if rd.starts_with('w') { "movzw" } else { "movz" }, num(imm).unwrap_or(-1) << num(sh).unwrap_or(0)),
        ["movk", rd, imm] => format!("movk {rd} {} 0", num(imm).unwrap_or(-1)),
        ["movk", rd, imm, "lsl", sh] => format!("movk {rd} {} {}", num(imm).unwrap_or(-1), num(sh).unwrap_or(0)),
        ["adrp", rd, off] => format!("adrp {rd} {}", num(off).unwrap_or(i128::MAX)),
        ["add", rd, rn, imm] => format!("add {rd} {rn} {}", num(imm).unwrap_or(-1)),
        ["add", rd, rn, imm, "lsl", sh] => format!("add {rd} {rn} {}", num(imm).unwrap_or(-1) << num(sh).unwrap_or(0)),
        ["br", rn] => format!("br {rn}"),
        ["ret"] => "ret x30".into(),
        ["ret", rn] => format!("ret {rn}"),
        other => format!("? {}", other.join(" ")),
    }
}

fn canon_mine_a64(w: u32) -> String {
    let mut b = vec![0u8; 16];
    b[8..12].copy_from_slice(&w.to_le_bytes());
    let o = a64_run(&Buf(b), 8, 1);
    let t = o.trace.first().cloned().unwrap_or_default();
    // trace looks like "0x8: movz x9, #0x1234, lsl #16"
    let body = t.splitn(2, ": ").nth(1).unwrap_or("").replace(',', " ");
    let f: Vec<&str> = body.split_whitespace().collect();
    match f.as_slice() {
        ["b", dst] => format!("b {}", num(dst).unwrap_or(0) - 8),
        ["nop"] => "nop".into(),
        ["movz", rd, imm, "lsl", sh] => format!("{} {rd} {}", if rd.starts_with('w') { "movzw" } else { "movz" }, num(imm).unwrap_or(-1) << num(sh).unwrap_or(0)),
        ["movk", rd, imm, "lsl", sh] => format!("movk {rd} {} {}", num(imm).unwrap_or(-1), num(sh).unwrap_or(0)),
        ["adrp", rd, val] => format!("adrp {rd} {}", num(val).unwrap_or(0)),
        ["add", rd, rn, imm] => format!("add {rd} {rn} {}", num(imm).unwrap_or(-1)),
        ["br", rn] => format!("br {rn}"),
        ["ret", rn] => format!("ret {rn}"),
        other => format!("? {}", other.join(" ")),
    }
}

pub fn cmd() -> i32 {
    let seed = vcommon::seed();
    let mut rng = seed;
    let mut next = move || {
        rng = vcommon::mix(rng, 0x5E1F);
        rng
    };
    let mut faults: Vec<String> = vec![];
    let mut checked = 0u64;
    // ---------------- A64
    let mut words: Vec<u32> = vec![0xD503201F, 0x14000000, 0x17FFFFFF, 0x16000000, 0x15FFFFFF, 0xD61F0120, 0xD61F0200, 0xD65F03C0, 0xD2800000, 0xD2FFFFE9, 0xF2A00029, 0xF2FFFFF1, 0x52800020, 0x52800000, 0x90000010, 0x9000001F & !0x1F | 16, 0x91000210, 0x913FFE10, 0xF0FFFFF0, 0xB0000010];
    for _ in 0..3000 {
        let r = next();
        let rd = 9 + (r % 9) as u32;
        let imm16 = ((r >> 8) & 0xFFFF) as u32;
        let hw = ((r >> 24) & 3) as u32;
        words.push(match (r >> 28) % 7 {
            0 => 0x14000000 | ((r >> 32) as u32 & 0x03FF_FFFF),
            1 => 0xD2800000 | hw << 21 | imm16 << 5 | rd,
            2 => 0xF2800000 | hw << 21 | imm16 << 5 | rd,
            3 => 0x90000000 | (((r >> 32) as u32 & 3) << 29) | (((r >> 34) as u32 & 0x7FFFF) << 5) | rd,
            4 => 0x91000000 | ((imm16 & 0xFFF) << 10) | rd << 5 | rd,
            5 => 0xD61F0000 | rd << 5,
            _ => 0x52800000 | ((hw & 1) << 21) | imm16 << 5 | (r % 3) as u32,
        });
    }
    let bytes: Vec<u8> = words.iter().flat_map(|w| w.to_le_bytes()).collect();
    match llvm_mc("aarch64", &bytes, &[]) {
        None => {
            println!("selftest: llvm-mc not available; decoders could not be cross-checked");
            return 3;
        }
        Some(lines) => {
            if lines.len() != words.len() {
                faults.push(format!("A64: llvm-mc printed {} lines for {} words", lines.len(), words.len()));
            } else {
                for (w, l) in words.iter().zip(&lines) {
                    checked += 1;
                    let a = canon_llvm_a64(l);
                    let mut b = canon_mine_a64(*w);
                    // adrp: llvm prints the page offset, mine the absolute value for pc=8 (page 0)
                    if a.starts_with("adrp") {
                        let t: Vec<&str> = b.split_whitespace().collect();
                        if t.len() == 3 {
                            let v = num(t[2]).unwrap_or(0);
                            let v = if v >= (1i128 << 63) { v - (1i128 << 64) } else { v };
                            b = format!("adrp {} {}", t[1], v);
                        }
                    }
                    // numbers are compared modulo 2^64 (llvm-mc prints signed values)
                    let modnorm = |s: &str| -> String {
                        s.split_whitespace().map(|t| match t.parse::<i128>() { Ok(v) => if s.starts_with("movzw") { (v as u32 as u64).to_string() } else { (v as u64).to_string() }, Err(_) => t.to_string() }).collect::<Vec<_>>().join(" ")
                    };
                    if modnorm(&a) != modnorm(&b) {
                        faults.push(format!("A64 {w:#010x}: llvm-mc `{l}` => `{a}`, decoder => `{b}`"));
                    }
                }
            }
        }
    }
    // ---------------- A32
    let a32: Vec<u32> = {
        let mut v = vec![0xE51F9000u32, 0xE12FFF19, 0xE51FF004, 0xE59FC000, 0xE12FFF1C, 0xE51FC004, 0xE59F9004];
        for _ in 0..500 {
            let r = next();
            let rt = (r % 13) as u32;
            v.push(if r & 1 == 0 { 0xE51F0000 | ((r >> 8) as u32 & 1) << 23 | rt << 12 | ((r >> 16) as u32 & 0xFFF) } else { 0xE12FFF10 | rt });
        }
        v
    };
    let bytes: Vec<u8> = a32.iter().flat_map(|w| w.to_le_bytes()).collect();
    if let Some(lines) = llvm_mc("armv7", &bytes, &[]) {
        for (w, l) in a32.iter().zip(&lines) {
            checked += 1;
            let mut b = vec![0u8; 64];
            b[16..20].copy_from_slice(&w.to_le_bytes());
            let o = arm_run(&Buf(b), 16, ArmState::A32, 1);
            let mine = o.trace.first().cloned().unwrap_or_else(|| format!("{:?}", o.end));
            let mine_body = mine.splitn(2, ": ").nth(1).unwrap_or("").split(" ;").next().unwrap_or("").to_string();
            let norm = |s: &str| s.replace(' ', "").replace("r15", "pc").replace("[pc]", "[pc,#0]").replace("#-0]", "#0]").replace("#-0", "#0");
            let lnorm = norm(l);
            if norm(&mine_body) != lnorm {
                faults.push(format!("A32 {w:#010x}: llvm-mc `{l}`, decoder `{mine_body}`"));
            }
        }
    }
    // ---------------- T32 (16-bit forms + ldr.w literal)
    let mut t16: Vec<u8> = vec![];
    let mut expect: Vec<String> = vec![];
    let mut halves: Vec<Vec<u16>> = vec![vec![0x4F00], vec![0x4738], vec![0x46C0], vec![0xBF00], vec![0xF8DF, 0xC004], vec![0x4760], vec![0xF8DF, 0xF000], vec![0xF85F, 0xC008]];
    for _ in 0..500 {
        let r = next();
        halves.push(match r % 3 {
            0 => vec![0x4800 | (((r >> 8) & 7) as u16) << 8 | ((r >> 16) & 0xFF) as u16],
            1 => vec![0x4700 | (((r >> 8) % 13) as u16) << 3],
            _ => vec![0xF85F | (((r >> 8) & 1) as u16) << 7, (((r >> 12) % 13) as u16) << 12 | ((r >> 20) & 0xFFF) as u16],
        });
    }
    for h in &halves {
        let mut b = vec![0u8; 64];
        let mut p = 16;
        for x in h {
            b[p..p + 2].copy_from_slice(&x.to_le_bytes());
            t16.extend_from_slice(&x.to_le_bytes());
            p += 2;
        }
        let o = arm_run(&Buf(b), 16, ArmState::T32, 1);
        let mine = o.trace.first().cloned().unwrap_or_else(|| format!("{:?}", o.end));
        expect.push(mine.splitn(2, ": ").nth(1).unwrap_or("").split(" ;").next().unwrap_or("").to_string());
    }
    if let Some(lines) = llvm_mc("thumbv7", &t16, &[]) {
        if lines.len() != expect.len() {
            faults.push(format!("T32: llvm-mc printed {} lines for {} instructions", lines.len(), expect.len()));
        } else {
            for ((h, l), mine) in halves.iter().zip(&lines).zip(&expect) {
                checked += 1;
                let norm = |s: &str| s.replace(' ', "").replace("movr8,r8", "nop").replace("r15", "pc").replace("[pc]", "[pc,#0]").replace("#-0]", "#0]");
                if norm(mine) != norm(l) {
                    faults.push(format!("T32 {h:04x?}: llvm-mc `{l}`, decoder `{mine}`"));
                }
            }
        }
    }
    // ---------------- x86-64
    let mut xs: Vec<Vec<u8>> = vec![vec![0xC3], vec![0xFF, 0xE0], vec![0xE9, 0x10, 0, 0, 0], vec![0xE9, 0xFB, 0xFF, 0xFF, 0xFF], vec![0x48, 0xC7, 0xC0, 1, 0, 0, 0], vec![0xB8, 5, 0, 0, 0], vec![0x48, 0xB8, 1, 2, 3, 4, 5, 6, 7, 8]];
    // every register of the register-parametrised forms
    for r in 0..16u8 {
        let (rexb, lo) = ((r >> 3) & 1, r & 7);
        let mut v = vec![0x48 | rexb, 0xB8 + lo];
        v.extend_from_slice(&next().to_le_bytes());
        xs.push(v);
        let mut v = if rexb == 1 { vec![0x41, 0xB8 + lo] } else { vec![0xB8 + lo] };
        v.extend_from_slice(&(next() as u32).to_le_bytes());
        xs.push(v);
        let mut v = vec![0x48 | rexb, 0xC7, 0xC0 + lo];
        v.extend_from_slice(&(next() as u32).to_le_bytes());
        xs.push(v);
        xs.push(if rexb == 1 { vec![0x41, 0xFF, 0xE0 + lo] } else { vec![0xFF, 0xE0 + lo] });
    }
    xs.push(vec![0x6A, 0x01]);
    xs.push(vec![0x6A, 0xFF]);
    xs.push(vec![0x68, 0x78, 0x56, 0x34, 0x92]);
    xs.push(vec![0x90]);
    xs.push(vec![0xF3, 0x0F, 0x1E, 0xFA]);
    xs.push(vec![0x31, 0xC0]);
    xs.push(vec![0xB0, 0x01]);
    for _ in 0..500 {
        let r = next();
        xs.push(match r % 4 {
            0 => {
                let mut v = vec![0xE9];
                v.extend_from_slice(&((r >> 8) as u32).to_le_bytes());
                v
            }
            1 => {
                let mut v = vec![0x48, 0xB8];
                v.extend_from_slice(&next().to_le_bytes());
                v
            }
            2 => {
                let mut v = vec![0x48, 0xC7, 0xC0];
                v.extend_from_slice(&((r >> 8) as u32).to_le_bytes());
                v
            }
            _ => {
                let mut v = vec![0xB8];
                v.extend_from_slice(&((r >> 8) as u32).to_le_bytes());
                v
            }
        });
    }
    let flat: Vec<u8> = xs.iter().flatten().copied().collect();
    if let Some(lines) = llvm_mc("x86_64", &flat, &["--output-asm-variant=1"]) {
        if lines.len() != xs.len() {
            faults.push(format!("x86: llvm-mc printed {} lines for {} instructions", lines.len(), xs.len()));
        } else {
            for (b, l) in xs.iter().zip(&lines) {
                checked += 1;
                let mut mem = vec![0u8; 64];
                mem[16..16 + b.len()].copy_from_slice(b);
                let o = x86_follow(&Buf(mem), 16, &[], 1);
                let mine = o.trace.first().cloned().unwrap_or_default();
                let body = mine.splitn(2, ": ").nth(1).unwrap_or("").to_string();
                let t: Vec<&str> = l.split_whitespace().collect();
                // (a `jmp reg` of a register the sequence has not set is "unknown" to the follower;
                // its text is still in the trace)
                let body = body.trim_end_matches(" (not a permitted form)").to_string();
                let is_reg = |s: &str| s.starts_with('r') || s.starts_with('e');
                let ok = match t.as_slice() {
                    ["ret"] | ["retq"] => body == "ret",
                    ["nop"] => body == "nop",
                    ["endbr64"] => body == "endbr64",
                    ["xor", "eax,", "eax"] => body == "xor eax, eax",
                    ["jmp", r] if is_reg(r) => body == format!("jmp {r}") || body.starts_with(".byte"),
                    ["jmp", rel] => {
                        // llvm prints the rel32 displacement; mine prints the destination for pc=16
                        let rel = num(rel).unwrap_or(i128::MAX);
                        let dst = (16i128 + 5 + rel) as u64;
                        body == format!("jmp {dst:#x}")
                    }
                    ["push", imm] => body == format!("push {:#x}", num(imm).unwrap_or(0) as i64 as u64),
                    ["movabs", r, imm] => body == format!("movabs {} {:#x}", r, num(imm).unwrap_or(-1) as u64),
                    ["mov", "al,", imm] => body == format!("mov al, {:#x}", num(imm).unwrap_or(-1) as u64 & 0xFF),
                    ["mov", r, imm] if r.starts_with('e') || r.ends_with("d,") => body == format!("mov {} {:#x}", r, num(imm).unwrap_or(-1) as u64 & 0xFFFF_FFFF),
                    ["mov", r, imm] => body == format!("mov {} {:#x}", r, num(imm).unwrap_or(0) as i64 as u64),
                    _ => false,
                };
                if !ok {
                    faults.push(format!("x86 {b:02x?}: llvm-mc `{l}`, decoder `{body}`"));
                }
            }
        }
    }
    println!("selftest: {checked} encodings cross-checked against llvm-mc, {} disagreement(s)", faults.len());
    for f in faults.iter().take(12) {
        println!("  {f}");
    }
    if faults.is_empty() {
        0
    } else {
        2
    }
}
