//! Safe-ish reader of this process's own memory for the mini-decoder: unreadable bytes read as
//! 0xF4 (hlt), which no permitted form starts with, so decoding stops as "unknown bytes".

use std::cell::RefCell;
use std::collections::HashMap;
use vcommon::decoders::Mem;

pub struct ProcMem {
    pages: RefCell<HashMap<u64, bool>>,
}

impl ProcMem {
    pub fn new() -> Self {
        ProcMem { pages: RefCell::new(HashMap::new()) }
    }
    fn page_ok(&self, p: u64) -> bool {
        *self.pages.borrow_mut().entry(p).or_insert_with(|| {
            if p < 0x1000 || p >= 0x7FFF_FFFF_F000 {
                return false;
            }
            // readable according to /proc/self/maps
            crate::maps::maps().iter().any(|m| m.r && p >= m.lo && p < m.hi)
        })
    }
}

impl Mem for ProcMem {
    fn byte(&self, addr: u64) -> u8 {
        if self.page_ok(addr & !0xFFF) {
            unsafe { *(addr as *const u8) }
        } else {
            0xF4
        }
    }
}

pub fn read_bytes(addr: usize, n: usize) -> Vec<u8> {
    let m = ProcMem::new();
    (0..n).map(|i| m.byte((addr + i) as u64)).collect()
}

/// Direct read of memory known to be mapped (targets, arenas, just-created trampolines).
pub fn read_direct(addr: usize, n: usize) -> Vec<u8> {
    unsafe { std::slice::from_raw_parts(addr as *const u8, n).to_vec() }
}
