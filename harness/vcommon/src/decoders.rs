//! Independent mini-decoders / symbolic executors written from the architecture manuals
//! (Arm ARM DDI 0487 C6.2 for A64, DDI 0406 A8.8 for A32/T32, Intel SDM vol. 2 for x86-64).
//! They share no code with the repository.  Each recognises only the handful of instruction
//! forms a patch may legitimately consist of; anything else is reported as `Unknown`, which the
//! oracles treat as a violation ("decodes to something that is not a branch to the fake").
//!
//! `vsim selftest` cross-checks every form against `llvm-mc --disassemble`.

use std::collections::BTreeSet;

pub trait Mem {
    fn byte(&self, addr: u64) -> u8;
    fn rd16(&self, a: u64) -> u16 {
        self.byte(a) as u16 | (self.byte(a.wrapping_add(1)) as u16) << 8
    }
    fn rd32(&self, a: u64) -> u32 {
        self.rd16(a) as u32 | (self.rd16(a.wrapping_add(2)) as u32) << 16
    }
    fn rd64(&self, a: u64) -> u64 {
        self.rd32(a) as u64 | (self.rd32(a.wrapping_add(4)) as u64) << 32
    }
}

impl<F: Fn(u64) -> u8> Mem for F {
    fn byte(&self, addr: u64) -> u8 {
        self(addr)
    }
}

fn sext(v: u64, bits: u32) -> i64 {
    let sh = 64 - bits;
    ((v << sh) as i64) >> sh
}

// =================================================================================================
// A64

#[derive(Clone, Debug, PartialEq, Eq)]
pub enum A64End {
    /// BR Xn with the symbolic value of Xn (None = not built by the sequence)
    Br { reg: u8, value: Option<u64>, at: u64 },
    Ret { reg: u8, at: u64 },
    Unknown { at: u64, word: u32 },
    StepLimit,
}

#[derive(Clone, Debug)]
pub struct A64Out {
    pub end: A64End,
    /// destinations of the direct branches taken, in order
    pub hops: Vec<u64>,
    pub written: BTreeSet<u8>,
    pub touched_sp: bool,
    pub regs: [Option<u64>; 32],
    pub trace: Vec<String>,
}

pub fn a64_run(mem: &dyn Mem, start: u64, max_steps: usize) -> A64Out {
    let mut o = A64Out {
        end: A64End::StepLimit,
        hops: vec![],
        written: BTreeSet::new(),
        touched_sp: false,
        regs: [None; 32],
        trace: vec![],
    };
    let mut pc = start;
    for _ in 0..max_steps {
        let w = mem.rd32(pc);
        let rd = (w & 31) as u8;
        let rn = ((w >> 5) & 31) as u8;
        if w == 0xD503201F {
            o.trace.push(format!("{pc:#x}: nop"));
            pc = pc.wrapping_add(4);
        } else if w & 0xFC00_0000 == 0x1400_0000 {
            // B <label>: imm26, offset = sext(imm26:00)
            let off = sext((w & 0x03FF_FFFF) as u64, 26) << 2;
            let dst = pc.wrapping_add(off as u64);
            o.trace.push(format!("{pc:#x}: b {dst:#x}"));
            o.hops.push(dst);
            pc = dst;
        } else if w & 0xFF80_0000 == 0xD280_0000 {
            // MOVZ Xd, #imm16, LSL #(hw*16)
            let hw = (w >> 21) & 3;
            let imm = ((w >> 5) & 0xFFFF) as u64;
            o.trace.push(format!("{pc:#x}: movz x{rd}, #{imm:#x}, lsl #{}", hw * 16));
            if rd != 31 {
                o.regs[rd as usize] = Some(imm << (hw * 16));
                o.written.insert(rd);
            }
            pc = pc.wrapping_add(4);
        } else if w & 0xFF80_0000 == 0x5280_0000 && (w >> 22) & 1 == 0 {
            // MOVZ Wd, #imm16, LSL #(hw*16), hw in {0,1}; upper 32 bits cleared
            let hw = (w >> 21) & 3;
            let imm = ((w >> 5) & 0xFFFF) as u64;
            o.trace.push(format!("{pc:#x}: movz w{rd}, #{imm:#x}, lsl #{}", hw * 16));
            if rd != 31 {
                o.regs[rd as usize] = Some((imm << (hw * 16)) & 0xFFFF_FFFF);
                o.written.insert(rd);
            }
            pc = pc.wrapping_add(4);
        } else if w & 0xFF80_0000 == 0xF280_0000 {
            // MOVK Xd, #imm16, LSL #(hw*16)
            let hw = (w >> 21) & 3;
            let imm = ((w >> 5) & 0xFFFF) as u64;
            o.trace.push(format!("{pc:#x}: movk x{rd}, #{imm:#x}, lsl #{}", hw * 16));
            if rd != 31 {
                let sh = hw * 16;
                o.regs[rd as usize] = o.regs[rd as usize].map(|v| (v & !(0xFFFFu64 << sh)) | (imm << sh));
                o.written.insert(rd);
            }
            pc = pc.wrapping_add(4);
        } else if w & 0x9F00_0000 == 0x9000_0000 {
            // ADRP Xd, label: imm = sext(immhi:immlo) << 12, base = pc with low 12 bits clear
            let immlo = ((w >> 29) & 3) as u64;
            let immhi = ((w >> 5) & 0x7FFFF) as u64;
            let imm = sext((immhi << 2) | immlo, 21) << 12;
            let val = (pc & !0xFFF).wrapping_add(imm as u64);
            o.trace.push(format!("{pc:#x}: adrp x{rd}, {val:#x}"));
            if rd != 31 {
                o.regs[rd as usize] = Some(val);
                o.written.insert(rd);
            }
            pc = pc.wrapping_add(4);
        } else if w & 0xFF80_0000 == 0x9100_0000 {
            // ADD Xd|SP, Xn|SP, #imm12 {, LSL #12}
            let sh = (w >> 22) & 1;
            let imm = (((w >> 10) & 0xFFF) as u64) << (12 * sh);
            o.trace.push(format!("{pc:#x}: add x{rd}, x{rn}, #{imm:#x}"));
            if rd == 31 || rn == 31 {
                o.touched_sp = true;
            } else {
                o.regs[rd as usize] = o.regs[rn as usize].map(|v| v.wrapping_add(imm));
                o.written.insert(rd);
            }
            pc = pc.wrapping_add(4);
        } else if w & 0xFF00_0000 == 0x5800_0000 {
            // LDR Xt, <label> (literal, 64-bit): address = pc + sext(imm19:00)
            let off = sext(((w >> 5) & 0x7FFFF) as u64, 19) << 2;
            let addr = pc.wrapping_add(off as u64);
            let val = mem.rd64(addr);
            o.trace.push(format!("{pc:#x}: ldr x{rd}, ={val:#x} ; [{addr:#x}]"));
            if rd != 31 {
                o.regs[rd as usize] = Some(val);
                o.written.insert(rd);
            }
            pc = pc.wrapping_add(4);
        } else if w & 0xFFFF_FC1F == 0xD61F_0000 {
            o.trace.push(format!("{pc:#x}: br x{rn}"));
            o.end = A64End::Br { reg: rn, value: if rn == 31 { None } else { o.regs[rn as usize] }, at: pc };
            return o;
        } else if w & 0xFFFF_FC1F == 0xD65F_0000 {
            o.trace.push(format!("{pc:#x}: ret x{rn}"));
            o.end = A64End::Ret { reg: rn, at: pc };
            return o;
        } else {
            o.trace.push(format!("{pc:#x}: .word {w:#010x} (not a permitted form)"));
            o.end = A64End::Unknown { at: pc, word: w };
            return o;
        }
    }
    o
}

// =================================================================================================
// A32 / T32

#[derive(Clone, Copy, Debug, PartialEq, Eq)]
pub enum ArmState {
    A32,
    T32,
}

#[derive(Clone, Debug, PartialEq, Eq)]
pub enum ArmEnd {
    /// BX Rm (interworking): the value decides the next state
    Bx { reg: u8, value: Option<u32>, at: u32 },
    /// LDR pc, [pc, #imm] (interworking on ARMv5T+)
    LoadPc { value: u32, at: u32 },
    Unknown { at: u32, enc: u32, why: &'static str },
    StepLimit,
}

#[derive(Clone, Debug)]
pub struct ArmOut {
    pub end: ArmEnd,
    pub written: BTreeSet<u8>,
    /// addresses of the literal words that were loaded
    pub literals: Vec<u32>,
    pub trace: Vec<String>,
    pub regs: [Option<u32>; 16],
}

pub fn arm_run(mem: &dyn Mem, start: u32, state: ArmState, max_steps: usize) -> ArmOut {
    let mut o = ArmOut { end: ArmEnd::StepLimit, written: BTreeSet::new(), literals: vec![], trace: vec![], regs: [None; 16] };
    let mut pc = start;
    for _ in 0..max_steps {
        match state {
            ArmState::A32 => {
                if pc % 4 != 0 {
                    o.end = ArmEnd::Unknown { at: pc, enc: 0, why: "A32 pc not word aligned" };
                    return o;
                }
                let w = mem.rd32(pc as u64);
                if w >> 28 != 0xE {
                    o.end = ArmEnd::Unknown { at: pc, enc: w, why: "condition is not AL" };
                    return o;
                }
                if w == 0xE320_F000 || w == 0xE1A0_0000 {
                    o.trace.push(format!("{pc:#x}: nop"));
                    pc = pc.wrapping_add(4);
                } else if w & 0x0F7F_0000 == 0x051F_0000 {
                    // LDR Rt, [PC, #+/-imm12]   (A8.8.64, literal; P=1 W=0)
                    let u = (w >> 23) & 1;
                    let rt = ((w >> 12) & 15) as u8;
                    let imm = w & 0xFFF;
                    let base = pc.wrapping_add(8) & !3;
                    let addr = if u == 1 { base.wrapping_add(imm) } else { base.wrapping_sub(imm) };
                    o.trace.push(format!("{pc:#x}: ldr r{rt}, [pc, #{}{imm}] ; ={addr:#x}", if u == 1 { "" } else { "-" }));
                    if addr % 4 != 0 {
                        o.end = ArmEnd::Unknown { at: pc, enc: w, why: "unaligned literal" };
                        return o;
                    }
                    let val = mem.rd32(addr as u64);
                    o.literals.push(addr);
                    if rt == 15 {
                        o.end = ArmEnd::LoadPc { value: val, at: pc };
                        return o;
                    }
                    o.regs[rt as usize] = Some(val);
                    o.written.insert(rt);
                    pc = pc.wrapping_add(4);
                } else if w & 0x0FFF_FFF0 == 0x012F_FF10 {
                    let rm = (w & 15) as u8;
                    o.trace.push(format!("{pc:#x}: bx r{rm}"));
                    o.end = ArmEnd::Bx { reg: rm, value: o.regs[rm as usize], at: pc };
                    return o;
                } else {
                    o.trace.push(format!("{pc:#x}: .word {w:#010x}"));
                    o.end = ArmEnd::Unknown { at: pc, enc: w, why: "not a permitted A32 form" };
                    return o;
                }
            }
            ArmState::T32 => {
                if pc % 2 != 0 {
                    o.end = ArmEnd::Unknown { at: pc, enc: 0, why: "T32 pc not halfword aligned" };
                    return o;
                }
                let h = mem.rd16(pc as u64) as u32;
                if h == 0x46C0 || h == 0xBF00 {
                    // MOV r8, r8 (the classic Thumb-1 NOP) or the architectural NOP
                    o.trace.push(format!("{pc:#x}: nop"));
                    pc = pc.wrapping_add(2);
                } else if h & 0xF800 == 0x4800 {
                    // LDR Rt, [PC, #imm8*4]  (T1): address = Align(PC,4) + imm
                    let rt = ((h >> 8) & 7) as u8;
                    let imm = (h & 0xFF) * 4;
                    let addr = (pc.wrapping_add(4) & !3).wrapping_add(imm);
                    o.trace.push(format!("{pc:#x}: ldr r{rt}, [pc, #{imm}] ; ={addr:#x}"));
                    let val = mem.rd32(addr as u64);
                    o.literals.push(addr);
                    o.regs[rt as usize] = Some(val);
                    o.written.insert(rt);
                    pc = pc.wrapping_add(2);
                } else if h & 0xFF87 == 0x4700 {
                    let rm = ((h >> 3) & 15) as u8;
                    o.trace.push(format!("{pc:#x}: bx r{rm}"));
                    o.end = ArmEnd::Bx { reg: rm, value: o.regs[rm as usize], at: pc };
                    return o;
                } else if h & 0xFF7F == 0xF85F {
                    // LDR.W Rt, [PC, #+/-imm12]  (T2)
                    let h2 = mem.rd16(pc.wrapping_add(2) as u64) as u32;
                    let u = (h >> 7) & 1;
                    let rt = ((h2 >> 12) & 15) as u8;
                    let imm = h2 & 0xFFF;
                    let base = pc.wrapping_add(4) & !3;
                    let addr = if u == 1 { base.wrapping_add(imm) } else { base.wrapping_sub(imm) };
                    o.trace.push(format!("{pc:#x}: ldr.w r{rt}, [pc, #{}{imm}] ; ={addr:#x}", if u == 1 { "" } else { "-" }));
                    if addr % 4 != 0 && rt == 15 {
                        o.end = ArmEnd::Unknown { at: pc, enc: (h << 16) | h2, why: "unaligned literal for pc load" };
                        return o;
                    }
                    let val = mem.rd32(addr as u64);
                    o.literals.push(addr);
                    if rt == 15 {
                        o.end = ArmEnd::LoadPc { value: val, at: pc };
                        return o;
                    }
                    if rt == 13 {
                        o.end = ArmEnd::Unknown { at: pc, enc: (h << 16) | h2, why: "loads sp" };
                        return o;
                    }
                    o.regs[rt as usize] = Some(val);
                    o.written.insert(rt);
                    pc = pc.wrapping_add(4);
                } else {
                    o.trace.push(format!("{pc:#x}: .hword {h:#06x}"));
                    o.end = ArmEnd::Unknown { at: pc, enc: h, why: "not a permitted T32 form" };
                    return o;
                }
            }
        }
    }
    o
}

// =================================================================================================
// x86-64

#[derive(Clone, Debug, PartialEq, Eq)]
pub enum X86End {
    /// control arrived at one of the `stop` addresses
    Arrived { at: u64 },
    Ret { at: u64, rax: Option<u64> },
    Unknown { at: u64, bytes: [u8; 4] },
    HopLimit,
}

#[derive(Clone, Debug)]
pub struct X86Out {
    pub end: X86End,
    pub hops: Vec<u64>,
    /// (address, length) of every decoded instruction
    pub insns: Vec<(u64, usize)>,
    pub rax_written: bool,
    pub trace: Vec<String>,
}

/// Follows control from `start` through the permitted forms until it arrives at an address in
/// `stop`, returns, or meets bytes it does not know.  Sixteen symbolic registers (None = not set
/// by the sequence) and the values the sequence itself pushed are tracked; the forms are the
/// ones a patcher has reason to emit: `jmp rel32`, `jmp [rip+0]`, `mov r64, imm64`,
/// `mov r64, simm32`, `mov r32, imm32`, `mov al, imm8`, `xor eax, eax`, `jmp r64`,
/// `push imm8/imm32` (+ `mov dword [rsp+4], imm32`), `pop r64`, `ret`, `nop`, `endbr64`.
pub fn x86_follow(mem: &dyn Mem, start: u64, stop: &[u64], max_insns: usize) -> X86Out {
    let mut o = X86Out { end: X86End::HopLimit, hops: vec![], insns: vec![], rax_written: false, trace: vec![] };
    let mut pc = start;
    let mut reg: [Option<u64>; 16] = [None; 16];
    const NAMES: [&str; 16] = ["rax", "rcx", "rdx", "rbx", "rsp", "rbp", "rsi", "rdi", "r8", "r9", "r10", "r11", "r12", "r13", "r14", "r15"];
    const NAMES32: [&str; 16] = ["eax", "ecx", "edx", "ebx", "esp", "ebp", "esi", "edi", "r8d", "r9d", "r10d", "r11d", "r12d", "r13d", "r14d", "r15d"];
    let mut first = true;
    // values pushed by the sequence itself
    let mut pushed: Vec<u64> = vec![];
    for _ in 0..max_insns {
        if !first && stop.contains(&pc) {
            o.end = X86End::Arrived { at: pc };
            return o;
        }
        first = false;
        let b0 = mem.byte(pc);
        let b1 = mem.byte(pc.wrapping_add(1));
        let b2 = mem.byte(pc.wrapping_add(2));
        let b3 = mem.byte(pc.wrapping_add(3));
        // REX prefix (only W and B matter for the forms below)
        let (rex, op, op1, op2, plen) = if (0x40..=0x4F).contains(&b0) { (b0, b1, b2, b3, 1u64) } else { (0u8, b0, b1, b2, 0u64) };
        let (w, bext) = (rex & 8 != 0, ((rex & 1) << 3) as usize);
        let unknown = |o: &mut X86Out| {
            o.trace.push(format!("{pc:#x}: .byte {b0:#04x},{b1:#04x},{b2:#04x} (not a permitted form)"));
            o.end = X86End::Unknown { at: pc, bytes: [b0, b1, b2, b3] };
        };
        if rex == 0 && op == 0xE9 {
            let rel = mem.rd32(pc.wrapping_add(1)) as i32 as i64;
            let dst = pc.wrapping_add(5).wrapping_add(rel as u64);
            o.trace.push(format!("{pc:#x}: jmp {dst:#x}"));
            o.insns.push((pc, 5));
            o.hops.push(dst);
            pc = dst;
        } else if (0xB8..=0xBF).contains(&op) && w {
            let r = (op - 0xB8) as usize + bext;
            let imm = mem.rd64(pc.wrapping_add(plen + 1));
            o.trace.push(format!("{pc:#x}: movabs {}, {imm:#x}", NAMES[r]));
            o.insns.push((pc, 10));
            reg[r] = Some(imm);
            o.rax_written |= r == 0;
            pc = pc.wrapping_add(10);
        } else if (0xB8..=0xBF).contains(&op) && !w {
            let r = (op - 0xB8) as usize + bext;
            let imm = mem.rd32(pc.wrapping_add(plen + 1)) as u64;
            o.trace.push(format!("{pc:#x}: mov {}, {imm:#x}", NAMES32[r]));
            o.insns.push((pc, (plen + 5) as usize));
            reg[r] = Some(imm);
            o.rax_written |= r == 0;
            pc = pc.wrapping_add(plen + 5);
        } else if op == 0xC7 && w && (op1 & 0xF8) == 0xC0 {
            let r = (op1 & 7) as usize + bext;
            let imm = mem.rd32(pc.wrapping_add(plen + 2)) as i32 as i64 as u64;
            o.trace.push(format!("{pc:#x}: mov {}, {imm:#x}", NAMES[r]));
            o.insns.push((pc, 7));
            reg[r] = Some(imm);
            o.rax_written |= r == 0;
            pc = pc.wrapping_add(7);
        } else if op == 0xFF && (op1 & 0xF8) == 0xE0 && (rex == 0 || rex & 0xE == 0) {
            let r = (op1 & 7) as usize + bext;
            o.trace.push(format!("{pc:#x}: jmp {}", NAMES[r]));
            o.insns.push((pc, (plen + 2) as usize));
            match reg[r] {
                Some(v) => {
                    o.hops.push(v);
                    pc = v;
                }
                None => {
                    unknown(&mut o);
                    return o;
                }
            }
        } else if rex == 0 && op == 0xFF && op1 == 0x25 && mem.rd32(pc.wrapping_add(2)) == 0 {
            let dst = mem.rd64(pc.wrapping_add(6));
            o.trace.push(format!("{pc:#x}: jmp [rip+0] ; {dst:#x}"));
            o.insns.push((pc, 14));
            o.hops.push(dst);
            pc = dst;
        } else if rex == 0 && op == 0xB0 {
            // mov al, imm8 : only the low byte becomes known
            let imm = op1 as u64;
            o.trace.push(format!("{pc:#x}: mov al, {imm:#x}"));
            o.insns.push((pc, 2));
            reg[0] = Some(reg[0].unwrap_or(0) & !0xFF | imm);
            o.rax_written = true;
            pc = pc.wrapping_add(2);
        } else if (op == 0x31 || op == 0x33) && op1 == 0xC0 && (rex == 0 || rex == 0x48) {
            o.trace.push(format!("{pc:#x}: xor eax, eax"));
            o.insns.push((pc, (plen + 2) as usize));
            reg[0] = Some(0);
            o.rax_written = true;
            pc = pc.wrapping_add(plen + 2);
        } else if rex == 0 && op == 0x68 {
            // push imm32 (sign-extended to 64 bits)
            let v = mem.rd32(pc.wrapping_add(1)) as i32 as i64 as u64;
            o.trace.push(format!("{pc:#x}: push {v:#x}"));
            o.insns.push((pc, 5));
            pushed.push(v);
            pc = pc.wrapping_add(5);
        } else if rex == 0 && op == 0x6A {
            // push imm8 (sign-extended to 64 bits)
            let v = op1 as i8 as i64 as u64;
            o.trace.push(format!("{pc:#x}: push {v:#x}"));
            o.insns.push((pc, 2));
            pushed.push(v);
            pc = pc.wrapping_add(2);
        } else if (0x58..=0x5F).contains(&op) && (rex == 0 || rex == 0x41) && !pushed.is_empty() {
            // pop r64 : only of a value the sequence pushed itself
            let r = (op - 0x58) as usize + bext;
            let v = pushed.pop().unwrap();
            o.trace.push(format!("{pc:#x}: pop {} ; {v:#x}", NAMES[r]));
            o.insns.push((pc, (plen + 1) as usize));
            reg[r] = Some(v);
            o.rax_written |= r == 0;
            pc = pc.wrapping_add(plen + 1);
        } else if rex == 0 && op == 0xC7 && op1 == 0x44 && op2 == 0x24 && mem.byte(pc.wrapping_add(3)) == 0x04 && !pushed.is_empty() {
            // mov dword ptr [rsp+4], imm32 : upper half of the value just pushed
            let hi = mem.rd32(pc.wrapping_add(4)) as u64;
            let top = pushed.last_mut().unwrap();
            *top = (*top & 0xFFFF_FFFF) | (hi << 32);
            o.trace.push(format!("{pc:#x}: mov dword ptr [rsp+4], {hi:#x}"));
            o.insns.push((pc, 8));
            pc = pc.wrapping_add(8);
        } else if rex == 0 && op == 0x90 {
            o.trace.push(format!("{pc:#x}: nop"));
            o.insns.push((pc, 1));
            pc = pc.wrapping_add(1);
        } else if b0 == 0xF3 && b1 == 0x0F && b2 == 0x1E && b3 == 0xFA {
            o.trace.push(format!("{pc:#x}: endbr64"));
            o.insns.push((pc, 4));
            pc = pc.wrapping_add(4);
        } else if rex == 0 && op == 0xC3 && !pushed.is_empty() {
            let dst = pushed.pop().unwrap();
            o.trace.push(format!("{pc:#x}: ret ; to pushed {dst:#x}"));
            o.insns.push((pc, 1));
            o.hops.push(dst);
            pc = dst;
        } else if rex == 0 && op == 0xC3 {
            o.trace.push(format!("{pc:#x}: ret"));
            o.insns.push((pc, 1));
            o.end = X86End::Ret { at: pc, rax: reg[0] };
            return o;
        } else {
            unknown(&mut o);
            return o;
        }
    }
    o
}
