//! S1 shim for `crate::injector_core::common`: the seven items the arch patchers use.
//! Nothing is ever dereferenced, so every 64-bit (or 32-bit) address is a legal input.
//! Reads come from a sparse memory (address-derived pattern + overlay of what was written);
//! writes and allocations are recorded as events for the oracle.

use std::cell::RefCell;
use std::collections::VecDeque;
use std::ptr::NonNull;

pub struct FuncPtrInternal(NonNull<()>);

impl FuncPtrInternal {
    pub unsafe fn new(non_null_ptr: NonNull<()>) -> Self {
        FuncPtrInternal(non_null_ptr)
    }
    pub fn as_ptr(&self) -> *const () {
        self.0.as_ptr()
    }
}

pub struct PatchGuard {
    pub func_ptr: *mut u8,
    pub original_bytes: Vec<u8>,
    pub patch_size: usize,
    pub jit_memory: *mut u8,
    pub jit_size: usize,
}

impl PatchGuard {
    pub fn new(
        func_ptr: *mut u8,
        original_bytes: Vec<u8>,
        patch_size: usize,
        jit_memory: *mut u8,
        jit_size: usize,
    ) -> Self {
        Self { func_ptr, original_bytes, patch_size, jit_memory, jit_size }
    }
}

#[derive(Clone, Debug, PartialEq, Eq)]
pub enum Event {
    Alloc { src: u64, size: usize, ret: u64 },
    Read { addr: u64, len: usize },
    /// patch_function(func, bytes)
    Patch { addr: u64, bytes: Vec<u8> },
    /// inject_asm_code(bytes, dest)
    Inject { addr: u64, bytes: Vec<u8> },
}

#[derive(Default)]
pub struct Sim {
    pub salt: u64,
    pub jit_plan: VecDeque<u64>,
    pub overlay: Vec<(u64, u8)>,
    pub events: Vec<Event>,
}

impl Sim {
    pub fn byte(&self, addr: u64) -> u8 {
        for (a, b) in self.overlay.iter().rev() {
            if *a == addr {
                return *b;
            }
        }
        pattern(self.salt, addr)
    }
    pub fn write(&mut self, addr: u64, bytes: &[u8]) {
        for (i, b) in bytes.iter().enumerate() {
            self.overlay.push((addr.wrapping_add(i as u64), *b));
        }
    }
}

/// Address-derived filler: distinct enough that "read the wrong place" is visible.
pub fn pattern(salt: u64, addr: u64) -> u8 {
    let mut z = addr ^ salt.rotate_left(17);
    z = (z ^ (z >> 30)).wrapping_mul(0xBF58476D1CE4E5B9);
    z = (z ^ (z >> 27)).wrapping_mul(0x94D049BB133111EB);
    (z ^ (z >> 31)) as u8
}

thread_local! {
    pub static SIM: RefCell<Sim> = RefCell::new(Sim::default());
}

pub fn reset(salt: u64, jit_plan: &[u64]) {
    SIM.with(|s| {
        let mut s = s.borrow_mut();
        s.salt = salt;
        s.jit_plan = jit_plan.iter().copied().collect();
        s.overlay.clear();
        s.events.clear();
    })
}

pub fn events() -> Vec<Event> {
    SIM.with(|s| s.borrow().events.clone())
}

pub fn read_mem(addr: u64, len: usize) -> Vec<u8> {
    SIM.with(|s| {
        let s = s.borrow();
        (0..len).map(|i| s.byte(addr.wrapping_add(i as u64))).collect()
    })
}

pub fn allocate_jit_memory(src: &FuncPtrInternal, code_size: usize) -> *mut u8 {
    SIM.with(|s| {
        let mut s = s.borrow_mut();
        let ret = s.jit_plan.pop_front().expect("vsim: jit plan exhausted");
        s.events.push(Event::Alloc { src: src.as_ptr() as u64, size: code_size, ret });
        ret as *mut u8
    })
}

pub unsafe fn read_bytes(ptr: *const u8, len: usize) -> Vec<u8> {
    SIM.with(|s| {
        let mut s = s.borrow_mut();
        s.events.push(Event::Read { addr: ptr as u64, len });
        (0..len).map(|i| s.byte((ptr as u64).wrapping_add(i as u64))).collect()
    })
}

pub unsafe fn patch_function(func: *mut u8, patch: &[u8]) {
    SIM.with(|s| {
        let mut s = s.borrow_mut();
        s.events.push(Event::Patch { addr: func as u64, bytes: patch.to_vec() });
        s.write(func as u64, patch);
    })
}

pub unsafe fn inject_asm_code(asm_code: &[u8], dest: *mut u8) {
    SIM.with(|s| {
        let mut s = s.borrow_mut();
        s.events.push(Event::Inject { addr: dest as u64, bytes: asm_code.to_vec() });
        s.write(dest as u64, asm_code);
    })
}
