#!/bin/bash
# take_simseed.sh <worktree-dir> <PROP> <name>: for arm64/arm seeds whose demonstration is a
# standalone program (SEED/demo/run.sh): confirm in a fresh worktree, store, audit.
set -u
wt=$1; prop=$2; name=$3
keep=/var/tmp/seeds-in/$name
rm -rf "$keep"; mkdir -p /var/tmp/seeds-in; cp -r "$wt/SEED" "$keep" || exit 2
rm -rf "$keep/demo/target"
v=/var/tmp/vseed-$name
git -C /repo worktree remove --force $v 2>/dev/null; rm -rf $v
git -C /repo worktree add -q --detach $v HEAD || exit 2
cd $v && git apply "$keep/patch.diff" || { echo "PATCH DOES NOT APPLY"; exit 1; }
cp -r "$keep/demo" $v/demo
export CARGO_TARGET_DIR=/var/tmp/verif-seed-target-sim
( cd $v && sh demo/run.sh > /tmp/simseed_with.txt 2>&1 ); with=$?
( cd $v && git checkout -q HEAD -- src && sh demo/run.sh > /tmp/simseed_wo.txt 2>&1 ); wo=$?
echo "demo with change rc=$with (must be !=0); without rc=$wo (must be 0)"
tail -2 /tmp/simseed_with.txt
cd $v && git apply "$keep/patch.diff" && git diff HEAD -- src > /tmp/simseed.patch
cd /verif
mkdir -p seeded/$name
cp /tmp/simseed.patch seeded/$name/patch.diff
rm -rf seeded/$name/demo; cp -r "$keep/demo" seeded/$name/demo; rm -rf seeded/$name/demo/target seeded/$name/demo/src/injector_core
[ -f "$keep/NOTES.md" ] && cp "$keep/NOTES.md" seeded/$name/
cat > seeded/$name/meta.json <<META
{
 "property": "$prop",
 "checks": ["$prop"],
 "origin": "fresh sub-agent given only the property text (plus a list of ideas already taken) and a scratch worktree",
 "needs_to_manifest": "see NOTES.md",
 "confirmed_by_me": {"applies": true, "suite_passes_with_change": "trivially (arm/arm64 sources are not compiled on x86-64; 71/71)", "demo_fails_with_change": $([ $with -ne 0 ] && echo true || echo false), "demo_passes_without_change": $([ $wo -eq 0 ] && echo true || echo false)},
 "ran": ["git worktree add --detach /var/tmp/vseed-<name> HEAD; git apply patch.diff", "sh demo/run.sh (with the change: exit $with; after git checkout HEAD -- src: exit $wo)"]
}
META
git -C /repo worktree remove --force $v; rm -rf /var/tmp/verif-seed-target-sim
python3 tools/audit.py --seeded --only "$name" 2>&1 | grep "seeded/"
