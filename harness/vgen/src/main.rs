fn main(){}
