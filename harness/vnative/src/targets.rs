//! Real Rust / libc patch targets and the fakes that can replace them, organised in signature
//! classes so that the generators can pick (target, kind, fake) freely within a class.
//!
//! Every original bumps ORIG_RUNS (so "the original body ran" is observable) and returns a
//! value unique to it; every fake returns a value unique to it.

use injectorpp::interface::injector::*;
use std::hint::black_box;
use std::sync::atomic::{AtomicU64, Ordering::SeqCst};

pub static ORIG_RUNS: AtomicU64 = AtomicU64::new(0);

#[derive(Clone, Copy, Debug, PartialEq, Eq, Hash, serde::Serialize, serde::Deserialize)]
pub enum Class {
    /// fn() -> u64
    U,
    /// fn() -> bool
    B,
    /// unsafe extern "C" fn(c_long) -> c_long   (libc labs / llabs)
    L,
    /// fn(&Widget) -> u64   (method)
    M,
    /// async fn (the compiler-generated poll function is what gets patched)
    A,
}

pub const SIG_U: &str = "fn() -> u64";
pub const SIG_B: &str = "fn() -> bool";

// ------------------------------------------------------------------------------------------------
// originals

macro_rules! orig_u {
    ($name:ident, $val:expr) => {
        #[inline(never)]
        pub fn $name() -> u64 {
            ORIG_RUNS.fetch_add(1, SeqCst);
            black_box($val)
        }
    };
}
orig_u!(t_u0, 100);
orig_u!(t_u1, 101);
orig_u!(t_u2, 102);

#[inline(never)]
pub fn t_gen<T: 'static>() -> u64 {
    ORIG_RUNS.fetch_add(1, SeqCst);
    black_box(200 + std::mem::size_of::<T>() as u64)
}

#[inline(never)]
pub fn t_b0() -> bool {
    ORIG_RUNS.fetch_add(1, SeqCst);
    black_box(false)
}
#[inline(never)]
pub fn t_b1() -> bool {
    ORIG_RUNS.fetch_add(1, SeqCst);
    black_box(true)
}

struct YieldOnce(bool);
impl std::future::Future for YieldOnce {
    type Output = ();
    fn poll(mut self: std::pin::Pin<&mut Self>, _cx: &mut std::task::Context<'_>) -> std::task::Poll<()> {
        if self.0 {
            std::task::Poll::Ready(())
        } else {
            self.0 = true;
            std::task::Poll::Pending
        }
    }
}
pub async fn t_a0(x: u32) -> u32 {
    ORIG_RUNS.fetch_add(1, SeqCst);
    YieldOnce(false).await;
    black_box(x + 600)
}
pub async fn t_a1(x: u64) -> u64 {
    ORIG_RUNS.fetch_add(1, SeqCst);
    YieldOnce(false).await;
    black_box(x + 700)
}

pub struct Widget {
    pub v: u64,
}
impl Widget {
    #[inline(never)]
    pub fn weigh(&self) -> u64 {
        ORIG_RUNS.fetch_add(1, SeqCst);
        black_box(300 + self.v)
    }
    #[inline(never)]
    pub fn other(&self) -> u64 {
        ORIG_RUNS.fetch_add(1, SeqCst);
        black_box(400 + self.v)
    }
}

// ------------------------------------------------------------------------------------------------
// fakes

macro_rules! fake_u {
    ($name:ident, $val:expr) => {
        #[inline(never)]
        pub fn $name() -> u64 {
            black_box($val)
        }
    };
}
fake_u!(f_u0, 1000);
fake_u!(f_u1, 1001);
fake_u!(f_u2, 1002);
fake_u!(f_u3, 1003);

#[inline(never)]
pub fn f_bt() -> bool {
    black_box(true)
}
#[inline(never)]
pub fn f_bf() -> bool {
    black_box(false)
}

#[inline(never)]
pub unsafe extern "C" fn f_l0(_x: libc::c_long) -> libc::c_long {
    black_box(7000)
}
#[inline(never)]
pub unsafe extern "C" fn f_l1(_x: libc::c_long) -> libc::c_long {
    black_box(7001)
}

#[inline(never)]
pub fn f_m0(_w: &Widget) -> u64 {
    black_box(8000)
}
#[inline(never)]
pub fn f_m1(_w: &Widget) -> u64 {
    black_box(8001)
}

#[derive(Clone, Copy, Debug, PartialEq, Eq, Hash, serde::Serialize, serde::Deserialize)]
pub enum Kind {
    /// func! + will_execute_raw
    Raw,
    /// closure! + will_execute_raw
    Closure,
    /// fake! + will_execute
    FakeMacro,
    /// func_unchecked! + when_called_unchecked + will_execute_raw_unchecked
    Unchecked,
    /// will_return_boolean(v)   (class B only)
    Bool(bool),
    /// fake!(..., times: n) + will_execute   (class U only): scope exit panics unless exactly n calls were made
    Times(u8),
    /// async_func! + when_called_async + will_return_async   (class A only)
    Async,
    /// async_func_unchecked! + when_called_async_unchecked + will_return_async_unchecked   (class A only)
    AsyncUnchecked,
    /// a fake living in the target's own code arena (synthetic targets only): bit 0 selects the
    /// page-aligned or the unaligned one, bits 1.. the API (raw / unchecked / will_execute)
    ArenaFake(u8),
}

pub static TIMES_H: [std::sync::atomic::AtomicUsize; 4] = [const { std::sync::atomic::AtomicUsize::new(0) }; 4];

pub struct Target {
    pub name: String,
    pub class: Class,
    pub addr: usize,
    pub orig: u64,
    /// type-carrying pointer for `when_called`
    pub checked: Box<dyn Fn() -> FuncPtr>,
    /// call it the way user code would
    pub call: Box<dyn Fn() -> u64>,
    pub synthetic: bool,
    /// synthetic targets: (address, returned value) of fake functions living in the same code
    /// arena as the target (the first one page-aligned)
    pub arena_fakes: Vec<(usize, u64)>,
}

fn widget() -> &'static Widget {
    static W: Widget = Widget { v: 7 };
    &W
}

/// The fixed real targets.  Index = stable id used by generated cases.
pub fn real_targets() -> Vec<Target> {
    let mut v: Vec<Target> = vec![];
    macro_rules! tu {
        ($f:path, $orig:expr, $mk:expr) => {
            v.push(Target {
                name: stringify!($f).to_string(),
                class: Class::U,
                addr: ($f as fn() -> u64) as usize,
                orig: $orig,
                checked: Box::new(|| $mk),
                call: Box::new(|| $f()),
                synthetic: false,
                arena_fakes: vec![],
            });
        };
    }
    // different func! arms on purpose
    tu!(t_u0, 100, injectorpp::func!(fn (t_u0)() -> u64));
    tu!(t_u1, 101, injectorpp::func!(t_u1, fn() -> u64));
    tu!(t_u2, 102, injectorpp::func!(func_info: fn (t_u2)() -> u64));
    v.push(Target {
        name: "t_gen::<u32>".into(),
        class: Class::U,
        addr: (t_gen::<u32> as fn() -> u64) as usize,
        orig: 204,
        checked: Box::new(|| injectorpp::func!(t_gen::<u32>, fn() -> u64)),
        call: Box::new(|| t_gen::<u32>()),
        synthetic: false,
        arena_fakes: vec![],
    });
    v.push(Target {
        name: "t_gen::<u64>".into(),
        class: Class::U,
        addr: (t_gen::<u64> as fn() -> u64) as usize,
        orig: 208,
        checked: Box::new(|| injectorpp::func!(t_gen::<u64>, fn() -> u64)),
        call: Box::new(|| t_gen::<u64>()),
        synthetic: false,
        arena_fakes: vec![],
    });
    v.push(Target {
        name: "t_b0".into(),
        class: Class::B,
        addr: (t_b0 as fn() -> bool) as usize,
        orig: 0,
        checked: Box::new(|| injectorpp::func!(fn (t_b0)() -> bool)),
        call: Box::new(|| t_b0() as u64),
        synthetic: false,
        arena_fakes: vec![],
    });
    v.push(Target {
        name: "t_b1".into(),
        class: Class::B,
        addr: (t_b1 as fn() -> bool) as usize,
        orig: 1,
        checked: Box::new(|| injectorpp::func!(t_b1, fn() -> bool)),
        call: Box::new(|| t_b1() as u64),
        synthetic: false,
        arena_fakes: vec![],
    });
    v.push(Target {
        name: "libc::labs".into(),
        class: Class::L,
        addr: (libc::labs as unsafe extern "C" fn(libc::c_long) -> libc::c_long) as usize,
        orig: 5,
        checked: Box::new(|| injectorpp::func!(unsafe{} extern "C" fn (libc::labs)(libc::c_long) -> libc::c_long)),
        call: Box::new(|| unsafe { libc::labs(black_box(-5)) as u64 }),
        synthetic: false,
        arena_fakes: vec![],
    });
    v.push(Target {
        name: "Widget::weigh".into(),
        class: Class::M,
        addr: (Widget::weigh as fn(&Widget) -> u64) as usize,
        orig: 307,
        checked: Box::new(|| injectorpp::func!(fn (Widget::weigh)(&Widget) -> u64)),
        call: Box::new(|| widget().weigh()),
        synthetic: false,
        arena_fakes: vec![],
    });
    v
}

/// Async targets (histories only): the address is that of the future's `poll`.
pub fn async_targets() -> Vec<Target> {
    use crate::asyncs::{poll_addr, run};
    vec![
        Target {
            name: "t_a0 (async)".into(),
            class: Class::A,
            addr: poll_addr(&t_a0(0)),
            orig: 607,
            checked: Box::new(|| unreachable!("async targets are installed through when_called_async")),
            call: Box::new(|| run(t_a0(black_box(7))).0 as u64),
            synthetic: false,
            arena_fakes: vec![],
        },
        Target {
            name: "t_a1 (async)".into(),
            class: Class::A,
            addr: poll_addr(&t_a1(0)),
            orig: 707,
            checked: Box::new(|| unreachable!("async targets are installed through when_called_async")),
            call: Box::new(|| run(t_a1(black_box(7))).0),
            synthetic: false,
            arena_fakes: vec![],
        },
    ]
}

/// Untouched bystanders (never named in an installation): (name, call, original value, addr).
pub fn bystanders() -> Vec<(&'static str, Box<dyn Fn() -> u64>, u64, usize)> {
    vec![
        ("t_gen::<u8>", Box::new(|| t_gen::<u8>()), 201, (t_gen::<u8> as fn() -> u64) as usize),
        ("t_gen::<u16>", Box::new(|| t_gen::<u16>()), 202, (t_gen::<u16> as fn() -> u64) as usize),
        ("Widget::other", Box::new(|| widget().other()), 407, (Widget::other as fn(&Widget) -> u64) as usize),
        ("libc::abs", Box::new(|| unsafe { libc::abs(black_box(-9)) as u64 }), 9, (libc::abs as unsafe extern "C" fn(libc::c_int) -> libc::c_int) as usize),
        ("f_u3 (a fake never installed)", Box::new(|| f_u3()), 1003, (f_u3 as fn() -> u64) as usize),
    ]
}

/// A synthetic target living in a code arena: `mov eax, id; ret`.
pub fn synthetic_target(addr: usize, class: Class, orig: u64, name: String) -> Target {
    let sig: &'static str = match class {
        Class::B => SIG_B,
        _ => SIG_U,
    };
    Target {
        name,
        class,
        addr,
        orig,
        checked: Box::new(move || unsafe { FuncPtr::new(addr as *const (), sig) }),
        call: Box::new(move || unsafe {
            match class {
                Class::B => (std::mem::transmute::<usize, fn() -> bool>(addr))() as u64,
                _ => (std::mem::transmute::<usize, fn() -> u64>(addr))(),
            }
        }),
        synthetic: true,
        arena_fakes: vec![],
    }
}

/// What an installation is expected to make the target return, and where control should land
/// (None = somewhere in this executable's text: closure / fake! bodies have no nameable address).
pub struct Installed {
    pub value: u64,
    pub dest: Option<usize>,
}

pub const N_FAKES: usize = 4;

/// Install fake number `k` (mod the number available) of kind `kind` on `t` through the public
/// API.  Panics exactly when the library panics.
pub fn install(inj: &mut InjectorPP, t: &Target, kind: Kind, k: usize) -> Installed {
    let k = k % N_FAKES;
    // async kinds only exist for async targets: callers map kinds through legal_kinds first
    let kind = if t.class != Class::A && matches!(kind, Kind::Async | Kind::AsyncUnchecked) { Kind::Raw } else { kind };
    let kind = if matches!(kind, Kind::ArenaFake(_)) && (t.arena_fakes.is_empty() || !matches!(t.class, Class::U | Class::B)) { Kind::Raw } else { kind };
    if let Kind::ArenaFake(w) = kind {
        let (fa, val) = t.arena_fakes[(w & 1) as usize % t.arena_fakes.len()];
        let sig: &'static str = if t.class == Class::B { SIG_B } else { SIG_U };
        unsafe {
            match (w >> 1) % 3 {
                0 => inj.when_called(FuncPtr::new(t.addr as *const (), sig)).will_execute_raw(FuncPtr::new(fa as *const (), sig)),
                1 => inj.when_called_unchecked(FuncPtr::new(t.addr as *const (), "")).will_execute_raw_unchecked(FuncPtr::new(fa as *const (), "")),
                _ => inj.when_called(FuncPtr::new(t.addr as *const (), sig)).will_execute((FuncPtr::new(fa as *const (), sig), CallCountVerifier::Dummy)),
            }
        }
        return Installed { value: val, dest: Some(fa) };
    }
    match (t.class, kind) {
        (_, Kind::ArenaFake(_)) => unreachable!(),
        (Class::U, Kind::Async) | (Class::U, Kind::AsyncUnchecked) | (Class::B, Kind::Async) | (Class::B, Kind::AsyncUnchecked) => unreachable!(),
        (Class::U, Kind::Raw) => {
            let (fp, val, dest) = match k {
                0 => (injectorpp::func!(fn (f_u0)() -> u64), 1000, f_u0 as fn() -> u64 as usize),
                1 => (injectorpp::func!(f_u1, fn() -> u64), 1001, f_u1 as fn() -> u64 as usize),
                2 => (injectorpp::func!(func_info: fn (f_u2)() -> u64), 1002, f_u2 as fn() -> u64 as usize),
                _ => (injectorpp::func!(fn (f_u0)() -> u64), 1000, f_u0 as fn() -> u64 as usize),
            };
            inj.when_called((t.checked)()).will_execute_raw(fp);
            Installed { value: val, dest: Some(dest) }
        }
        (Class::U, Kind::Closure) => {
            let (fp, val) = match k {
                0 => (injectorpp::closure!(|| -> u64 { black_box(2000) }, fn() -> u64), 2000),
                1 => (injectorpp::closure!(|| -> u64 { black_box(2001) }, fn() -> u64), 2001),
                2 => (injectorpp::closure!(|| -> u64 { black_box(2002) }, fn() -> u64), 2002),
                _ => (injectorpp::closure!(|| -> u64 { black_box(2003) }, fn() -> u64), 2003),
            };
            inj.when_called((t.checked)()).will_execute_raw(fp);
            Installed { value: val, dest: None }
        }
        (Class::U, Kind::FakeMacro) => {
            let (pair, val) = match k {
                0 => (injectorpp::fake!(func_type: fn() -> u64, returns: black_box(3000)), 3000),
                1 => (injectorpp::fake!(func_type: fn() -> u64, returns: black_box(3001)), 3001),
                2 => (injectorpp::fake!(func_type: fn() -> u64, returns: black_box(3002)), 3002),
                _ => (injectorpp::fake!(func_type: fn() -> u64, returns: black_box(3003)), 3003),
            };
            inj.when_called((t.checked)()).will_execute(pair);
            Installed { value: val, dest: None }
        }
        (Class::U, Kind::Times(n)) => {
            TIMES_H[k].store(n as usize, SeqCst);
            let (pair, val) = match k {
                0 => (injectorpp::fake!(func_type: fn() -> u64, returns: black_box(4000), times: TIMES_H[0].load(SeqCst)), 4000),
                1 => (injectorpp::fake!(func_type: fn() -> u64, returns: black_box(4001), times: TIMES_H[1].load(SeqCst)), 4001),
                2 => (injectorpp::fake!(func_type: fn() -> u64, returns: black_box(4002), times: TIMES_H[2].load(SeqCst)), 4002),
                _ => (injectorpp::fake!(func_type: fn() -> u64, returns: black_box(4003), times: TIMES_H[3].load(SeqCst)), 4003),
            };
            inj.when_called((t.checked)()).will_execute(pair);
            Installed { value: val, dest: None }
        }
        (Class::U, Kind::Unchecked) | (Class::U, Kind::Bool(_)) => {
            let (val, dest) = match k % 2 {
                0 => (1000, f_u0 as fn() -> u64 as usize),
                _ => (1001, f_u1 as fn() -> u64 as usize),
            };
            unsafe {
                let fp = if k % 2 == 0 { injectorpp::func_unchecked!(f_u0) } else { injectorpp::func_unchecked!(f_u1) };
                let tp = FuncPtr::new(t.addr as *const (), "");
                inj.when_called_unchecked(tp).will_execute_raw_unchecked(fp);
            }
            Installed { value: val, dest: Some(dest) }
        }
        (Class::B, Kind::Bool(v)) => {
            inj.when_called((t.checked)()).will_return_boolean(v);
            Installed { value: v as u64, dest: None }
        }
        (Class::B, Kind::Raw) | (Class::B, Kind::Unchecked) | (Class::B, Kind::Times(_)) => {
            let kind = if matches!(kind, Kind::Times(_)) { Kind::Raw } else { kind };
            let v = k % 2 == 0;
            if kind == Kind::Raw {
                let fp = if v { injectorpp::func!(fn (f_bt)() -> bool) } else { injectorpp::func!(fn (f_bf)() -> bool) };
                inj.when_called((t.checked)()).will_execute_raw(fp);
            } else {
                unsafe {
                    let fp = if v { injectorpp::func_unchecked!(f_bt) } else { injectorpp::func_unchecked!(f_bf) };
                    inj.when_called_unchecked(FuncPtr::new(t.addr as *const (), "")).will_execute_raw_unchecked(fp);
                }
            }
            Installed { value: v as u64, dest: Some(if v { f_bt as fn() -> bool as usize } else { f_bf as fn() -> bool as usize }) }
        }
        (Class::B, Kind::Closure) => {
            let v = k % 2 == 0;
            let fp = if v { injectorpp::closure!(|| -> bool { black_box(true) }, fn() -> bool) } else { injectorpp::closure!(|| -> bool { black_box(false) }, fn() -> bool) };
            inj.when_called((t.checked)()).will_execute_raw(fp);
            Installed { value: v as u64, dest: None }
        }
        (Class::B, Kind::FakeMacro) => {
            let v = k % 2 == 0;
            let pair = if v { injectorpp::fake!(func_type: fn() -> bool, returns: black_box(true)) } else { injectorpp::fake!(func_type: fn() -> bool, returns: black_box(false)) };
            inj.when_called((t.checked)()).will_execute(pair);
            Installed { value: v as u64, dest: None }
        }
        (Class::L, Kind::FakeMacro) => {
            let pair = injectorpp::fake!(func_type: unsafe extern "C" fn(_x: libc::c_long) -> libc::c_long, returns: black_box(7100));
            inj.when_called((t.checked)()).will_execute(pair);
            Installed { value: 7100, dest: None }
        }
        (Class::L, Kind::Unchecked) => {
            unsafe {
                inj.when_called_unchecked(injectorpp::func_unchecked!(libc::labs)).will_execute_raw_unchecked(injectorpp::func_unchecked!(f_l1));
            }
            Installed { value: 7001, dest: Some(f_l1 as unsafe extern "C" fn(libc::c_long) -> libc::c_long as usize) }
        }
        (Class::L, _) => {
            let (fp, val, dest) = if k % 2 == 0 {
                (injectorpp::func!(unsafe{} extern "C" fn (f_l0)(libc::c_long) -> libc::c_long), 7000, f_l0 as unsafe extern "C" fn(libc::c_long) -> libc::c_long as usize)
            } else {
                (injectorpp::func!(func_info: unsafe extern "C" fn (f_l1)(libc::c_long) -> libc::c_long), 7001, f_l1 as unsafe extern "C" fn(libc::c_long) -> libc::c_long as usize)
            };
            inj.when_called((t.checked)()).will_execute_raw(fp);
            Installed { value: val, dest: Some(dest) }
        }
        (Class::A, kind) => {
            let first = t.orig == 607;
            let unchecked = kind == Kind::AsyncUnchecked;
            macro_rules! go {
                ($fut:expr, $ty:ty, $val:expr) => {
                    if unchecked {
                        unsafe {
                            inj.when_called_async_unchecked(injectorpp::async_func_unchecked!($fut)).will_return_async_unchecked(injectorpp::async_return_unchecked!($val, $ty));
                        }
                    } else {
                        inj.when_called_async(injectorpp::async_func!($fut, $ty)).will_return_async(injectorpp::async_return!($val, $ty));
                    }
                };
            }
            match (first, k % 2) {
                (true, 0) => go!(t_a0(0), u32, 5000),
                (true, _) => go!(t_a0(0), u32, 5001),
                (false, 0) => go!(t_a1(0), u64, 5000),
                (false, _) => go!(t_a1(0), u64, 5001),
            }
            Installed { value: 5000 + (k % 2) as u64, dest: None }
        }
        (Class::M, Kind::Closure) => {
            let fp = injectorpp::closure!(|_w: &Widget| -> u64 { black_box(8100) }, fn(&Widget) -> u64);
            inj.when_called((t.checked)()).will_execute_raw(fp);
            Installed { value: 8100, dest: None }
        }
        (Class::M, Kind::FakeMacro) => {
            let pair = injectorpp::fake!(func_type: fn(_w: &Widget) -> u64, returns: black_box(8200));
            inj.when_called((t.checked)()).will_execute(pair);
            Installed { value: 8200, dest: None }
        }
        (Class::M, Kind::Unchecked) => {
            unsafe {
                inj.when_called_unchecked(injectorpp::func_unchecked!(Widget::weigh)).will_execute_raw_unchecked(injectorpp::func_unchecked!(f_m1));
            }
            Installed { value: 8001, dest: Some(f_m1 as fn(&Widget) -> u64 as usize) }
        }
        (Class::M, _) => {
            let (fp, val, dest) = if k % 2 == 0 {
                (injectorpp::func!(fn (f_m0)(&Widget) -> u64), 8000, f_m0 as fn(&Widget) -> u64 as usize)
            } else {
                (injectorpp::func!(f_m1, fn(&Widget) -> u64), 8001, f_m1 as fn(&Widget) -> u64 as usize)
            };
            inj.when_called((t.checked)()).will_execute_raw(fp);
            Installed { value: val, dest: Some(dest) }
        }
    }
}

/// Kinds that are legal for a class (the generator maps an arbitrary pick onto this list).
pub fn legal_kinds(class: Class) -> Vec<Kind> {
    match class {
        Class::B => vec![Kind::Raw, Kind::Closure, Kind::FakeMacro, Kind::Unchecked, Kind::Bool(true), Kind::Bool(false)],
        Class::U => vec![Kind::Raw, Kind::Closure, Kind::FakeMacro, Kind::Unchecked, Kind::Times(0), Kind::Times(1), Kind::Times(2)],
        Class::A => vec![Kind::Async, Kind::AsyncUnchecked],
        _ => vec![Kind::Raw, Kind::Closure, Kind::FakeMacro, Kind::Unchecked],
    }
}
