//! Mutual exclusion of injector and preventer guards across threads (C04): real threads, a
//! harness-perturbed schedule (pause points inside the interposed platform calls widen the
//! windows "after acquiring, before patching" and "while restoring, before releasing").

use crate::driver::{signal_name, Exec};
use crate::interpose as ip;
use injectorpp::interface::injector::*;
use proptest::prelude::*;
use serde::{Deserialize, Serialize};
use serde_json::{json, Value};
use std::hint::black_box;
use std::sync::atomic::{AtomicI64, AtomicU64, Ordering::SeqCst};
use vcommon::Recorder;

static HOLDERS: AtomicI64 = AtomicI64::new(0);
static MAX_HOLDERS: AtomicI64 = AtomicI64::new(0);
static CONTENDED: AtomicU64 = AtomicU64::new(0);
static ACQUISITIONS: AtomicU64 = AtomicU64::new(0);

#[inline(never)]
pub fn shared_fn() -> u64 {
    black_box(7)
}

macro_rules! tfake {
    ($($n:ident = $v:expr),*) => { $( #[inline(never)] fn $n() -> u64 { black_box($v) } )* };
}
tfake!(tf0 = 100, tf1 = 101, tf2 = 102, tf3 = 103, tf4 = 104, tf5 = 105, tf6 = 106, tf7 = 107);

fn fake_ptr(i: usize) -> FuncPtr {
    match i % 8 {
        0 => injectorpp::func!(fn (tf0)() -> u64),
        1 => injectorpp::func!(fn (tf1)() -> u64),
        2 => injectorpp::func!(fn (tf2)() -> u64),
        3 => injectorpp::func!(fn (tf3)() -> u64),
        4 => injectorpp::func!(fn (tf4)() -> u64),
        5 => injectorpp::func!(fn (tf5)() -> u64),
        6 => injectorpp::func!(fn (tf6)() -> u64),
        _ => injectorpp::func!(fn (tf7)() -> u64),
    }
}

#[derive(Serialize, Deserialize, Clone, Debug, Hash, PartialEq, Eq)]
pub enum TOp {
    Injector { calls: u8, exit_panic: bool },
    /// like Injector, with `extra` further fakes installed first and one call-count expectation
    /// left unmet, so that the scope is left through the verification panic
    InjectorUnmet { calls: u8, extra: u8 },
    Preventer { calls: u8, exit_panic: bool },
    Spin(u16),
    /// like Injector, plus a fake on a function of its own page whose restoration at scope exit
    /// fails (every mprotect of that page is refused from then on): the drop panics half-way;
    /// the holder has let go all the same and a waiting thread must get its turn
    InjectorRestoreFault { calls: u8 },
    /// a preventer held for `ms` milliseconds (calling the shared function all the while): the
    /// waiters wait that long
    PreventerHold { ms: u16 },
    /// like Injector, but first the holder offers a fake of the wrong type (refused with a panic
    /// that the holder catches) and goes on using the same injector
    InjectorAfterRefusal { calls: u8 },
    /// the thread leaves itself a pending wake-up (`thread::current().unpark()`), as a channel
    /// receive, a scoped-thread join or a hand-made `block_on` may: the next `park()` anybody does
    /// on this thread returns at once.  A guard handed out on the strength of such a return is not
    /// a guard.
    PendingUnpark,
}

#[derive(Serialize, Deserialize, Clone, Debug, Hash, PartialEq, Eq)]
pub struct ThreadCase {
    pub scripts: Vec<Vec<TOp>>,
    /// (interposed call kind 1=mmap 2=munmap 3=mprotect 4=flush, ordinal) at which the calling
    /// thread (then inside an installation or inside the injector's drop) waits
    pub pauses: Vec<(u8, u8)>,
    pub pause_us: u16,
}

#[derive(Serialize, Deserialize, Clone, Debug, Default)]
pub struct ThreadObs {
    pub max_holders: i64,
    pub foreign: Vec<String>,
    pub op_failures: Vec<String>,
    pub finished: Vec<bool>,
    pub stuck: Vec<String>,
    pub contended: u64,
    pub acquisitions: u64,
    pub pauses_taken: u64,
    pub restored: bool,
    pub kinds: Vec<String>,
}

struct Holding;
impl Holding {
    fn enter() -> Holding {
        let prev = HOLDERS.fetch_add(1, SeqCst);
        MAX_HOLDERS.fetch_max(prev + 1, SeqCst);
        ACQUISITIONS.fetch_add(1, SeqCst);
        // a paused holder may proceed as soon as somebody else got in (that is the evidence)
        ip::PAUSE_RELEASE.fetch_add(1, SeqCst);
        Holding
    }
}
impl Drop for Holding {
    fn drop(&mut self) {
        HOLDERS.fetch_sub(1, SeqCst);
    }
}

static TIMES_T: std::sync::atomic::AtomicUsize = std::sync::atomic::AtomicUsize::new(1);

macro_rules! filler {
    ($($n:ident),*) => { $( #[inline(never)] fn $n() -> u64 { black_box(900) } )* };
}
filler!(fl0, fl1, fl2, fl3, fl4, fl5, fl6, fl7, fl8, fl9, fl10, fl11);
#[inline(never)]
fn counted_target() -> u64 {
    black_box(55)
}

fn install_filler(inj: &mut InjectorPP, i: usize) {
    let fp = match i % 12 {
        0 => injectorpp::func!(fn (fl0)() -> u64),
        1 => injectorpp::func!(fn (fl1)() -> u64),
        2 => injectorpp::func!(fn (fl2)() -> u64),
        3 => injectorpp::func!(fn (fl3)() -> u64),
        4 => injectorpp::func!(fn (fl4)() -> u64),
        5 => injectorpp::func!(fn (fl5)() -> u64),
        6 => injectorpp::func!(fn (fl6)() -> u64),
        7 => injectorpp::func!(fn (fl7)() -> u64),
        8 => injectorpp::func!(fn (fl8)() -> u64),
        9 => injectorpp::func!(fn (fl9)() -> u64),
        10 => injectorpp::func!(fn (fl10)() -> u64),
        _ => injectorpp::func!(fn (fl11)() -> u64),
    };
    inj.when_called(fp).will_execute_raw(injectorpp::func!(fn (tf0)() -> u64));
}

fn run_op(t: usize, op: &TOp, foreign: &std::sync::Mutex<Vec<String>>) -> Result<(), String> {
    match op {
        TOp::InjectorUnmet { calls, extra } => {
            let r = std::panic::catch_unwind(|| {
                if HOLDERS.load(SeqCst) > 0 {
                    CONTENDED.fetch_add(1, SeqCst);
                }
                let mut inj = ip::sut(InjectorPP::new);
                let _h = Holding::enter();
                ip::sut(|| {
                    for i in 0..(*extra as usize).min(12) {
                        install_filler(&mut inj, i);
                    }
                    inj.when_called(injectorpp::func!(fn (shared_fn)() -> u64)).will_execute_raw(fake_ptr(t));
                    // an expectation that stays unmet: counted_target is never called
                    inj.when_called(injectorpp::func!(fn (counted_target)() -> u64)).will_execute(injectorpp::fake!(func_type: fn() -> u64, returns: 56, times: TIMES_T.load(SeqCst)));
                });
                for _ in 0..*calls {
                    let v = shared_fn();
                    if v != 100 + (t as u64 % 8) {
                        foreign.lock().unwrap().push(format!("thread {t} holding an injector with its fake {} saw {v}", 100 + t % 8));
                    }
                }
                drop(_h);
                // leaves the scope through the call-count verification panic
                ip::sut(|| drop(inj));
            });
            match r {
                Err(_) => Ok(()),
                Ok(()) => Err(format!("thread {t}: scope exit with an unmet expectation did not panic")),
            }
        }
        TOp::InjectorRestoreFault { calls } => {
            static FAULT_SEQ: AtomicU64 = AtomicU64::new(0);
            let seq = FAULT_SEQ.fetch_add(1, SeqCst);
            let base = 0x0000_3A00_0000_0000usize + (seq as usize) * 2 * crate::arena::PAGE;
            let Some(a) = crate::arena::Arena::map(base, crate::arena::PAGE) else { return Ok(()) };
            let lone = base + 0x40;
            a.put_ret_id(lone, 0x10E);
            a.seal();
            std::mem::forget(a); // stays patched after the failed restoration: never reused
            let _ = std::panic::catch_unwind(|| {
                if HOLDERS.load(SeqCst) > 0 {
                    CONTENDED.fetch_add(1, SeqCst);
                }
                let mut inj = ip::sut(InjectorPP::new);
                let _h = Holding::enter();
                ip::sut(|| {
                    inj.when_called(injectorpp::func!(fn (shared_fn)() -> u64)).will_execute_raw(fake_ptr(t));
                    unsafe {
                        inj.when_called(FuncPtr::new(lone as *const (), "fn() -> u64")).will_execute_raw(fake_ptr(t));
                    }
                });
                for _ in 0..*calls {
                    let v = shared_fn();
                    if v != 100 + (t as u64 % 8) {
                        foreign.lock().unwrap().push(format!("thread {t} holding an injector with its fake {} saw {v}", 100 + t % 8));
                    }
                }
                drop(_h);
                ip::MPROTECT_FAIL_PAGE.store((lone & !0xFFF) as u64, SeqCst);
                // the restoration of `lone` (installed last, restored first) cannot make its page
                // writable: whatever the library does about it, it must not keep the lock
                ip::sut(|| drop(inj));
            });
            ip::MPROTECT_FAIL_PAGE.store(0, SeqCst);
            Ok(())
        }
        TOp::InjectorAfterRefusal { calls } => {
            #[inline(never)]
            fn wrong_type(_a: u32) -> u64 {
                black_box(3)
            }
            let r = std::panic::catch_unwind(|| {
                if HOLDERS.load(SeqCst) > 0 {
                    CONTENDED.fetch_add(1, SeqCst);
                }
                let mut inj = ip::sut(InjectorPP::new);
                let _h = Holding::enter();
                let refused = std::panic::catch_unwind(std::panic::AssertUnwindSafe(|| {
                    ip::sut(|| inj.when_called(injectorpp::func!(fn (shared_fn)() -> u64)).will_execute_raw(injectorpp::func!(fn (wrong_type)(u32) -> u64)))
                }));
                if refused.is_ok() {
                    foreign.lock().unwrap().push(format!("thread {t}: a fake of the wrong type was accepted"));
                }
                // the injector is still alive and still this thread's: give it time to be overtaken
                for _ in 0..200 {
                    std::hint::spin_loop();
                }
                std::thread::yield_now();
                ip::sut(|| inj.when_called(injectorpp::func!(fn (shared_fn)() -> u64)).will_execute_raw(fake_ptr(t)));
                for _ in 0..*calls {
                    let v = shared_fn();
                    if v != 100 + (t as u64 % 8) {
                        foreign.lock().unwrap().push(format!("thread {t} holding an injector (after a refused fake) with its fake {} saw {v}", 100 + t % 8));
                    }
                }
                drop(_h);
                ip::sut(|| drop(inj));
            });
            match r {
                Ok(()) => Ok(()),
                Err(_) => Err(format!("thread {t}: injector operation panicked: {}", crate::worker::last_panic())),
            }
        }
        TOp::PreventerHold { ms } => {
            let r = std::panic::catch_unwind(|| {
                if HOLDERS.load(SeqCst) > 0 {
                    CONTENDED.fetch_add(1, SeqCst);
                }
                let p = ip::sut(InjectorPP::prevent);
                let _h = Holding::enter();
                let t0 = std::time::Instant::now();
                while t0.elapsed() < std::time::Duration::from_millis(*ms as u64) {
                    let v = shared_fn();
                    if v != 7 {
                        foreign.lock().unwrap().push(format!("thread {t} holding a preventer for {ms} ms saw {v} instead of the original 7 after {} ms", t0.elapsed().as_millis()));
                        break;
                    }
                    std::thread::sleep(std::time::Duration::from_millis(1));
                }
                drop(_h);
                drop(p);
            });
            match r {
                Err(_) => Err(format!("thread {t}: preventer operation panicked: {}", crate::worker::last_panic())),
                Ok(()) => Ok(()),
            }
        }
        TOp::PendingUnpark => {
            std::thread::current().unpark();
            Ok(())
        }
        TOp::Spin(k) => {
            for _ in 0..*k {
                std::hint::spin_loop();
            }
            if k % 3 == 0 {
                std::thread::yield_now();
            }
            Ok(())
        }
        TOp::Injector { calls, exit_panic } => {
            let r = std::panic::catch_unwind(|| {
                if HOLDERS.load(SeqCst) > 0 {
                    CONTENDED.fetch_add(1, SeqCst);
                }
                // (every public way of making an injector is a way of taking the guard: scripts
                // with three calls build theirs through the `Default` implementation)
                let mut inj: InjectorPP = if *calls == 3 { ip::sut(<InjectorPP as Default>::default) } else { ip::sut(InjectorPP::new) };
                // declared after `inj`: dropped first, also when unwinding, so the measured
                // holding period is a subset of the true one
                let _h = Holding::enter();
                ip::sut(|| inj.when_called(injectorpp::func!(fn (shared_fn)() -> u64)).will_execute_raw(fake_ptr(t)));
                for _ in 0..*calls {
                    let v = shared_fn();
                    if v != 100 + (t as u64 % 8) {
                        foreign.lock().unwrap().push(format!("thread {t} holding an injector with its fake {} saw {v}", 100 + t % 8));
                    }
                }
                if *exit_panic {
                    let _g = ip::SutGuard::enter();
                    panic!("thread {t}: user panic while holding an injector");
                }
                drop(_h);
                ip::sut(|| drop(inj));
            });
            match (r, exit_panic) {
                (Ok(()), false) | (Err(_), true) => Ok(()),
                (Err(_), false) => Err(format!("thread {t}: injector operation panicked: {}", crate::worker::last_panic())),
                (Ok(()), true) => Ok(()),
            }
        }
        TOp::Preventer { calls, exit_panic } => {
            let r = std::panic::catch_unwind(|| {
                if HOLDERS.load(SeqCst) > 0 {
                    CONTENDED.fetch_add(1, SeqCst);
                }
                let p = ip::sut(InjectorPP::prevent);
                let _h = Holding::enter();
                for _ in 0..*calls {
                    let v = shared_fn();
                    if v != 7 {
                        foreign.lock().unwrap().push(format!("thread {t} holding a preventer saw {v} instead of the original 7"));
                    }
                    std::hint::spin_loop();
                }
                if *exit_panic {
                    panic!("thread {t}: user panic while holding a preventer");
                }
                drop(_h);
                drop(p);
            });
            match (r, exit_panic) {
                (Err(_), false) => {
                    let m = crate::worker::last_panic();
                    Err(format!("thread {t}: preventer operation panicked: {m}"))
                }
                _ => Ok(()),
            }
        }
    }
}

pub fn execute(c: &ThreadCase) -> ThreadObs {
    let mut o = ThreadObs::default();
    ip::plan_reset();
    ip::log_clear();
    HOLDERS.store(0, SeqCst);
    MAX_HOLDERS.store(0, SeqCst);
    CONTENDED.store(0, SeqCst);
    ACQUISITIONS.store(0, SeqCst);
    ip::PAUSES_TAKEN.store(0, SeqCst);
    let addr = shared_fn as fn() -> u64 as usize;
    let pristine = crate::mem::read_direct(addr, 16);
    *ip::PAUSE_SET.lock().unwrap() = c.pauses.iter().map(|(k, n)| (1 + k % 4, 1 + *n as i64)).collect();
    ip::PAUSE_MAX_US.store(c.pause_us.min(3000) as u64, SeqCst);
    let foreign = std::sync::Arc::new(std::sync::Mutex::new(Vec::<String>::new()));
    let failures = std::sync::Arc::new(std::sync::Mutex::new(Vec::<String>::new()));
    let n = c.scripts.len();
    let barrier = std::sync::Arc::new(std::sync::Barrier::new(n));
    let (tx, rx) = std::sync::mpsc::channel::<(usize, i64)>();
    let mut handles = vec![];
    for (t, script) in c.scripts.iter().cloned().enumerate() {
        let (foreign, failures, barrier, tx) = (foreign.clone(), failures.clone(), barrier.clone(), tx.clone());
        handles.push(std::thread::spawn(move || {
            let tid = unsafe { ip::raw_syscall(186, 0, 0, 0, 0, 0, 0) };
            let _ = tx.send((t, -tid));
            barrier.wait();
            for op in &script {
                if let Err(m) = run_op(t, op, &foreign) {
                    failures.lock().unwrap().push(m);
                }
            }
            let _ = tx.send((t, 1));
        }));
    }
    drop(tx);
    crate::worker::phase("threads");
    let mut finished = vec![false; n];
    let mut tids = vec![0i64; n];
    let longest_hold: u64 = c.scripts.iter().flatten().map(|op| if let TOp::PreventerHold { ms } = op { *ms as u64 } else { 0 }).sum();
    let deadline = std::time::Instant::now() + std::time::Duration::from_millis(10_000 + longest_hold);
    loop {
        let left = deadline.saturating_duration_since(std::time::Instant::now());
        match rx.recv_timeout(left) {
            Ok((t, v)) if v < 0 => tids[t] = -v,
            Ok((t, _)) => {
                finished[t] = true;
                if finished.iter().all(|f| *f) {
                    break;
                }
            }
            Err(_) => break,
        }
    }
    if !finished.iter().all(|f| *f) {
        // a loaded machine can make ten seconds pass without a thread being at fault: before
        // anything is concluded, threads that are merely slow (neither blocked in futex() nor
        // spinning) get another half minute
        let extended = std::time::Instant::now() + std::time::Duration::from_secs(30);
        loop {
            let slow = finished.iter().enumerate().any(|(t, f)| {
                !*f && {
                    let sc = std::fs::read_to_string(format!("/proc/self/task/{}/syscall", tids[t])).unwrap_or_default();
                    !sc.starts_with("202 ")
                }
            });
            let left = extended.saturating_duration_since(std::time::Instant::now());
            if !slow || left.is_zero() {
                break;
            }
            match rx.recv_timeout(left.min(std::time::Duration::from_millis(500))) {
                Ok((t, v)) if v < 0 => tids[t] = -v,
                Ok((t, _)) => {
                    finished[t] = true;
                    if finished.iter().all(|f| *f) {
                        break;
                    }
                }
                Err(_) => {}
            }
        }
    }
    if finished.iter().all(|f| *f) {
        for h in handles {
            let _ = h.join();
        }
    } else {
        // provable starvation: nobody is inside a holding section, and the waiter either sits in
        // futex() or burns CPU (spins) without ever getting its guard
        let ticks = |tid: i64| -> u64 {
            let st = std::fs::read_to_string(format!("/proc/self/task/{tid}/stat")).unwrap_or_default();
            let rest = st.rsplit_once(") ").map(|x| x.1.to_string()).unwrap_or_default();
            let f: Vec<&str> = rest.split_whitespace().collect();
            f.get(11).and_then(|x| x.parse::<u64>().ok()).unwrap_or(0) + f.get(12).and_then(|x| x.parse::<u64>().ok()).unwrap_or(0)
        };
        std::thread::sleep(std::time::Duration::from_millis(200));
        let before: Vec<u64> = tids.iter().map(|t| ticks(*t)).collect();
        std::thread::sleep(std::time::Duration::from_millis(1000));
        for (t, f) in finished.iter().enumerate() {
            if !*f {
                let sc = std::fs::read_to_string(format!("/proc/self/task/{}/syscall", tids[t])).unwrap_or_default();
                let holders = HOLDERS.load(SeqCst);
                let cpu = ticks(tids[t]).saturating_sub(before[t]);
                o.stuck.push(format!("thread {t} (tid {}) unfinished after 10 s; syscall state `{}`; cpu +{cpu} ticks in the last second; measured holders now {holders}; other unfinished: {:?}", tids[t], sc.trim(), finished.iter().enumerate().filter(|(_, f)| !**f).map(|(i, _)| i).collect::<Vec<_>>()));
            }
        }
    }
    o.finished = finished;
    o.max_holders = MAX_HOLDERS.load(SeqCst);
    o.foreign = foreign.lock().unwrap().iter().take(6).cloned().collect();
    o.op_failures = failures.lock().unwrap().iter().take(6).cloned().collect();
    o.contended = CONTENDED.load(SeqCst);
    o.acquisitions = ACQUISITIONS.load(SeqCst);
    o.pauses_taken = ip::PAUSES_TAKEN.load(SeqCst);
    ip::PAUSE_MAX_US.store(0, SeqCst);
    o.restored = o.stuck.is_empty() && crate::mem::read_direct(addr, 16) == pristine;
    let mut kinds = std::collections::BTreeSet::new();
    for s in &c.scripts {
        for op in s {
            kinds.insert(match op {
                TOp::Injector { exit_panic: false, calls: 3 } => "injector/built-by-Default/drop",
                TOp::Injector { exit_panic: false, .. } => "injector/drop",
                TOp::Injector { exit_panic: true, .. } => "injector/panic",
                TOp::InjectorUnmet { .. } => "injector/verification-panic",
                TOp::Preventer { exit_panic: false, .. } => "preventer/drop",
                TOp::Preventer { exit_panic: true, .. } => "preventer/panic",
                TOp::Spin(_) => "spin",
                TOp::PendingUnpark => "pending-unpark-token",
                TOp::InjectorRestoreFault { .. } => "injector/restoration-fault",
                TOp::PreventerHold { .. } => "preventer/drop",
                TOp::InjectorAfterRefusal { .. } => "injector/after-refusal",
            });
        }
    }
    o.kinds = kinds.into_iter().map(|s| s.to_string()).collect();
    if !o.stuck.is_empty() {
        // threads are stuck: this process cannot run another case
        crate::worker::TAINT.store(true, SeqCst);
    }
    o
}

pub fn strategy() -> impl Strategy<Value = ThreadCase> {
    let op = prop_oneof![
        4 => (0u8..4, prop::bool::weighted(0.25)).prop_map(|(calls, exit_panic)| TOp::Injector { calls, exit_panic }),
        2 => (0u8..3, 0u8..=12).prop_map(|(calls, extra)| TOp::InjectorUnmet { calls, extra }),
        3 => (0u8..6, prop::bool::weighted(0.25)).prop_map(|(calls, exit_panic)| TOp::Preventer { calls, exit_panic }),
        1 => (0u16..400).prop_map(TOp::Spin),
        1 => Just(TOp::PendingUnpark),
        1 => (0u8..3).prop_map(|calls| TOp::InjectorRestoreFault { calls }),
        1 => (1u8..4).prop_map(|calls| TOp::InjectorAfterRefusal { calls }),
    ];
    let script = prop::collection::vec(op, 1..=12);
    (prop::collection::vec(script, 2..=8), prop::collection::vec((0u8..4, 0u8..24), 0..=4), prop_oneof![1 => Just(0u16), 3 => 100u16..2000]).prop_map(|(scripts, pauses, pause_us)| ThreadCase { scripts, pauses, pause_us })
}

pub fn judge(rec: &mut Recorder, c: &ThreadCase, ex: Exec, _hello: &Value) -> Result<(), String> {
    let o: ThreadObs = match ex {
        Exec::Timeout => {
            rec.count("watchdog", 1);
            if rec.counters.get("watchdog").copied().unwrap_or(0) > 2 {
                rec.inconclusive.push("worker watchdog expired repeatedly".into());
            }
            return Ok(());
        }
        Exec::Died { signal, code, phase, stderr_tail } => {
            rec.eval(|| json!({"case": c, "outcome": "worker died"}));
            let s = signal.map(signal_name).unwrap_or("exit");
            return rec.fail(&format!("C04/native/died/{s}/{phase}"), format!("worker died ({s} code {code:?}) in phase '{phase}' while executing {c:?}; stderr: {stderr_tail}"));
        }
        Exec::Obs(v) => {
            if let Some(e) = v.get("harness_error") {
                rec.inconclusive.push(format!("harness error: {e}"));
                return Ok(());
            }
            match serde_json::from_value(v) {
                Ok(o) => o,
                Err(e) => {
                    rec.inconclusive.push(format!("bad observation: {e}"));
                    return Ok(());
                }
            }
        }
    };
    rec.eval(|| json!({"case": c, "acquisitions": o.acquisitions, "contended": o.contended, "pauses_taken": o.pauses_taken, "max_holders": o.max_holders}));
    let sig = |s: &str| format!("C04/native/{s}");
    if o.max_holders > 1 {
        return rec.fail(&sig("two-guards-held-at-once"), format!("{} threads were inside a (measured) holding period at the same time; foreign observations {:?}; case {c:?}", o.max_holders, o.foreign));
    }
    if !o.foreign.is_empty() {
        return rec.fail(&sig("holder-observed-foreign-behaviour"), format!("{:?}; case {c:?}", o.foreign));
    }
    if !o.op_failures.is_empty() {
        return rec.fail(&sig("acquisition-or-release-panicked"), format!("{:?}; case {c:?}", o.op_failures));
    }
    if !o.stuck.is_empty() {
        // each stuck thread: blocked in futex(), or spinning (>= half a CPU-second in one second)
        let spinning = |s: &String| s.split("cpu +").nth(1).and_then(|x| x.split(' ').next()).and_then(|x| x.parse::<u64>().ok()).map(|t| t >= 50).unwrap_or(false);
        let proved = o.stuck.iter().all(|s| s.contains("`202 ") || spinning(s));
        let nobody = o.stuck.iter().all(|s| s.contains("measured holders now 0"));
        if proved && nobody {
            let how = if o.stuck.iter().any(spinning) { "spin without ever being served" } else { "sit in futex()" };
            return rec.fail(&sig("waiter-never-gets-its-turn"), format!("{:?}; every holder has left its holding section, the waiters {how}; case {c:?}", o.stuck));
        }
        rec.count("watchdog", 1);
        rec.inconclusive.push(format!("threads did not finish but a deadlock could not be proved: {:?}", o.stuck));
        return Ok(());
    }
    if !o.restored {
        return rec.fail(&sig("not-restored"), format!("shared function not restored after all threads finished; case {c:?}"));
    }
    rec.count("acquisitions", o.acquisitions);
    rec.count("contended_acquisitions", o.contended);
    rec.count("pauses_taken", o.pauses_taken);
    let both_kinds = o.kinds.iter().any(|k| k.starts_with("injector")) && o.kinds.iter().any(|k| k.starts_with("preventer"));
    let both_exits = o.kinds.iter().any(|k| k.ends_with("panic")) && o.kinds.iter().any(|k| k.ends_with("/drop"));
    if o.kinds.iter().any(|k| k == "injector/after-refusal") {
        rec.class("has-injector-kept-after-a-refused-fake");
    }
    if o.kinds.iter().any(|k| k == "injector/restoration-fault") {
        rec.class("has-exit-with-failing-restoration");
    }
    if o.kinds.iter().any(|k| k == "injector/verification-panic") {
        rec.class("has-exit-by-verification-panic");
    }
    rec.class(&format!("threads={}{}{}{}", c.scripts.len(), if o.contended > 0 { "/contended" } else { "" }, if both_kinds { "/both-kinds" } else { "" }, if both_exits { "/both-exits" } else { "" }));
    if o.contended > 0 && both_kinds && both_exits {
        rec.nontrivial(&c.scripts);
    }
    Ok(())
}
