//! Rust-level signature shapes for C13: many arguments, floats, by-value aggregates, results
//! returned through the hidden slot, two-register results, extern "C" twins.
//!
//! Oracle (differential): calling the *faked* function with generated arguments must give
//! exactly what calling the fake directly with the same arguments gives (the fake folds every
//! argument into its result), and the original body must not run.  The target is either the
//! real Rust original (fake near: rel32 trampoline) or a synthetic function in a far arena
//! cast to the same type (fake far: `mov rax, imm64; jmp rax`).

use crate::arena::{Arena, PAGE};
use crate::driver::{signal_name, Exec};
use crate::interpose as ip;
use crate::place::synth_base;
use injectorpp::interface::injector::*;
use proptest::prelude::*;
use serde::{Deserialize, Serialize};
use serde_json::{json, Value};
use std::hint::black_box;
use std::sync::atomic::{AtomicU64, Ordering::SeqCst};
use vcommon::Recorder;

pub static SHAPE_ORIG_RUNS: AtomicU64 = AtomicU64::new(0);

fn mixw(a: u64, b: u64) -> u64 {
    (a ^ b.rotate_left(23)).wrapping_mul(0x9E3779B97F4A7C15).rotate_left(17) ^ b
}

#[repr(C)]
#[derive(Clone, Copy, Debug, PartialEq)]
pub struct Big48 {
    pub a: u64,
    pub b: f64,
    pub c: u64,
    pub d: u64,
    pub e: f64,
    pub f: u64,
}

macro_rules! orig {
    ($name:ident ( $($a:ident : $t:ty),* ) -> $r:ty = $dflt:expr) => {
        #[inline(never)]
        pub fn $name($($a: $t),*) -> $r {
            SHAPE_ORIG_RUNS.fetch_add(1, SeqCst);
            $(let _ = black_box(&$a);)*
            black_box($dflt)
        }
    };
}
macro_rules! orig_c {
    ($name:ident ( $($a:ident : $t:ty),* ) -> $r:ty = $dflt:expr) => {
        #[inline(never)]
        pub extern "C" fn $name($($a: $t),*) -> $r {
            SHAPE_ORIG_RUNS.fetch_add(1, SeqCst);
            $(let _ = black_box(&$a);)*
            black_box($dflt)
        }
    };
}

// shape 0: 12 integers (6 in registers, 6 on the stack)
orig!(o0(a: u64, b: u64, c: u64, d: u64, e: u64, f: u64, g: u64, h: u64, i: u64, j: u64, k: u64, l: u64) -> u64 = 0);
#[inline(never)]
pub fn f0(a: u64, b: u64, c: u64, d: u64, e: u64, f: u64, g: u64, h: u64, i: u64, j: u64, k: u64, l: u64) -> u64 {
    [a, b, c, d, e, f, g, h, i, j, k, l].iter().fold(1, |acc, x| mixw(acc, *x))
}
// shape 1: 10 doubles (8 in xmm, 2 on the stack)
orig!(o1(a: f64, b: f64, c: f64, d: f64, e: f64, f: f64, g: f64, h: f64, i: f64, j: f64) -> f64 = 0.0);
#[inline(never)]
pub fn f1(a: f64, b: f64, c: f64, d: f64, e: f64, f: f64, g: f64, h: f64, i: f64, j: f64) -> f64 {
    f64::from_bits([a, b, c, d, e, f, g, h, i, j].iter().fold(2, |acc, x| mixw(acc, x.to_bits())) & 0x7FEF_FFFF_FFFF_FFFF)
}
// shape 2: mixed, f32 result
orig!(o2(a: u64, x: f64, b: u32, y: f32, c: u64, z: f64, d: u8, w: f64, e: u64, v: f64, f: u64, g: u64, h: i64) -> f32 = 0.0);
#[inline(never)]
pub fn f2(a: u64, x: f64, b: u32, y: f32, c: u64, z: f64, d: u8, w: f64, e: u64, v: f64, f: u64, g: u64, h: i64) -> f32 {
    let m = [a, x.to_bits(), b as u64, y.to_bits() as u64, c, z.to_bits(), d as u64, w.to_bits(), e, v.to_bits(), f, g, h as u64].iter().fold(3, |acc, x| mixw(acc, *x));
    f32::from_bits((m as u32) & 0x7F7F_FFFF)
}
// shape 3: 48-byte aggregate by value, [u64; 8] through the hidden return slot
orig!(o3(s: Big48, t: u64) -> [u64; 8] = [0; 8]);
#[inline(never)]
pub fn f3(s: Big48, t: u64) -> [u64; 8] {
    let m = [s.a, s.b.to_bits(), s.c, s.d, s.e.to_bits(), s.f, t].iter().fold(4, |acc, x| mixw(acc, *x));
    [m, s.a, s.b.to_bits(), s.c, s.d, s.e.to_bits(), s.f, t]
}
// shape 4: u128 (two-register) result
orig!(o4(a: u64, b: u64) -> u128 = 0);
#[inline(never)]
pub fn f4(a: u64, b: u64) -> u128 {
    ((mixw(a, b) as u128) << 64) | mixw(b, a) as u128
}
// shape 5: scalar pair result
orig!(o5(a: u64, b: i32) -> (u64, u64) = (0, 0));
#[inline(never)]
pub fn f5(a: u64, b: i32) -> (u64, u64) {
    (mixw(a, b as u64), mixw(b as u64, a))
}
// shape 6: extern "C", 8 integers + 9 doubles
orig_c!(o6(a: u64, b: u64, c: u64, d: u64, e: u64, f: u64, g: u64, h: u64, p: f64, q: f64, r: f64, s: f64, t: f64, u: f64, v: f64, w: f64, x: f64) -> f64 = 0.0);
#[inline(never)]
pub extern "C" fn f6(a: u64, b: u64, c: u64, d: u64, e: u64, f: u64, g: u64, h: u64, p: f64, q: f64, r: f64, s: f64, t: f64, u: f64, v: f64, w: f64, x: f64) -> f64 {
    let m = [a, b, c, d, e, f, g, h, p.to_bits(), q.to_bits(), r.to_bits(), s.to_bits(), t.to_bits(), u.to_bits(), v.to_bits(), w.to_bits(), x.to_bits()].iter().fold(6, |acc, x| mixw(acc, *x));
    f64::from_bits(m & 0x7FEF_FFFF_FFFF_FFFF)
}
// shape 7: extern "C" aggregate by value in and out (sret)
orig_c!(o7(s: Big48, k: u64) -> Big48 = Big48 { a: 0, b: 0.0, c: 0, d: 0, e: 0.0, f: 0 });
#[inline(never)]
pub extern "C" fn f7(s: Big48, k: u64) -> Big48 {
    Big48 { a: mixw(s.a, k), b: s.e, c: s.f, d: mixw(s.d, s.c), e: s.b, f: k }
}
// shape 8: references, result with niche
orig!(o8(out: &mut [u64; 4], s: &str, k: u64) -> Option<u64> = None);
#[inline(never)]
pub fn f8(out: &mut [u64; 4], s: &str, k: u64) -> Option<u64> {
    out[0] = mixw(out[0], k);
    out[3] = s.len() as u64;
    if k & 1 == 0 { Some(mixw(k, s.len() as u64)) } else { None }
}
// shape 9: small integers and i128
orig!(o9(a: i8, b: i16, c: i32, d: i64, e: bool, f: char, g: u128) -> i128 = 0);
#[inline(never)]
pub fn f9(a: i8, b: i16, c: i32, d: i64, e: bool, f: char, g: u128) -> i128 {
    let m = [a as u64, b as u64, c as u64, d as u64, e as u64, f as u64, g as u64, (g >> 64) as u64].iter().fold(9, |acc, x| mixw(acc, *x));
    ((m as i128) << 64) | (g as u64 as i128)
}

pub const N_SHAPES: u8 = 10;

fn fl(v: u64) -> f64 {
    // any bit pattern except NaNs (NaN payloads may legally change when moved through x87/SSE)
    let f = f64::from_bits(v);
    if f.is_nan() { f64::from_bits(v & 0x7FEF_FFFF_FFFF_FFFF) } else { f }
}
fn fl32(v: u64) -> f32 {
    let f = f32::from_bits(v as u32);
    if f.is_nan() { f32::from_bits(v as u32 & 0x7F7F_FFFF) } else { f }
}

/// Calls shape `k` through `ptr` (an address holding a function of that shape) with arguments
/// derived from `v`, returns the result flattened to words.
unsafe fn call_shape(k: u8, ptr: usize, v: &[u64]) -> Vec<u64> {
    use std::mem::transmute as tm;
    match k % N_SHAPES {
        0 => vec![tm::<usize, fn(u64, u64, u64, u64, u64, u64, u64, u64, u64, u64, u64, u64) -> u64>(ptr)(v[0], v[1], v[2], v[3], v[4], v[5], v[6], v[7], v[8], v[9], v[10], v[11])],
        1 => vec![tm::<usize, fn(f64, f64, f64, f64, f64, f64, f64, f64, f64, f64) -> f64>(ptr)(fl(v[0]), fl(v[1]), fl(v[2]), fl(v[3]), fl(v[4]), fl(v[5]), fl(v[6]), fl(v[7]), fl(v[8]), fl(v[9])).to_bits()],
        2 => vec![tm::<usize, fn(u64, f64, u32, f32, u64, f64, u8, f64, u64, f64, u64, u64, i64) -> f32>(ptr)(v[0], fl(v[1]), v[2] as u32, fl32(v[3]), v[4], fl(v[5]), v[6] as u8, fl(v[7]), v[8], fl(v[9]), v[10], v[11], v[12] as i64).to_bits() as u64],
        3 => tm::<usize, fn(Big48, u64) -> [u64; 8]>(ptr)(Big48 { a: v[0], b: fl(v[1]), c: v[2], d: v[3], e: fl(v[4]), f: v[5] }, v[6]).to_vec(),
        4 => {
            let r = tm::<usize, fn(u64, u64) -> u128>(ptr)(v[0], v[1]);
            vec![r as u64, (r >> 64) as u64]
        }
        5 => {
            let r = tm::<usize, fn(u64, i32) -> (u64, u64)>(ptr)(v[0], v[1] as i32);
            vec![r.0, r.1]
        }
        6 => vec![tm::<usize, extern "C" fn(u64, u64, u64, u64, u64, u64, u64, u64, f64, f64, f64, f64, f64, f64, f64, f64, f64) -> f64>(ptr)(v[0], v[1], v[2], v[3], v[4], v[5], v[6], v[7], fl(v[8]), fl(v[9]), fl(v[10]), fl(v[11]), fl(v[12]), fl(v[13]), fl(v[14]), fl(v[15]), fl(v[0] ^ v[15])).to_bits()],
        7 => {
            let r = tm::<usize, extern "C" fn(Big48, u64) -> Big48>(ptr)(Big48 { a: v[0], b: fl(v[1]), c: v[2], d: v[3], e: fl(v[4]), f: v[5] }, v[6]);
            vec![r.a, r.b.to_bits(), r.c, r.d, r.e.to_bits(), r.f]
        }
        8 => {
            let mut out = [v[0], v[1], v[2], v[3]];
            let s = &"the quick brown fox jumps over the lazy dog"[..(v[4] % 40) as usize];
            let r = tm::<usize, fn(&mut [u64; 4], &str, u64) -> Option<u64>>(ptr)(&mut out, s, v[5]);
            vec![r.is_some() as u64, r.unwrap_or(0), out[0], out[1], out[2], out[3]]
        }
        _ => {
            let ch = char::from_u32((v[5] % 0xD000) as u32).unwrap_or('x');
            let r = tm::<usize, fn(i8, i16, i32, i64, bool, char, u128) -> i128>(ptr)(v[0] as i8, v[1] as i16, v[2] as i32, v[3] as i64, v[4] & 1 == 1, ch, ((v[6] as u128) << 64) | v[7] as u128);
            vec![r as u64, (r >> 64) as u64]
        }
    }
}

fn addrs(k: u8) -> (usize, usize) {
    match k % N_SHAPES {
        0 => (o0 as fn(u64, u64, u64, u64, u64, u64, u64, u64, u64, u64, u64, u64) -> u64 as usize, f0 as fn(u64, u64, u64, u64, u64, u64, u64, u64, u64, u64, u64, u64) -> u64 as usize),
        1 => (o1 as fn(f64, f64, f64, f64, f64, f64, f64, f64, f64, f64) -> f64 as usize, f1 as fn(f64, f64, f64, f64, f64, f64, f64, f64, f64, f64) -> f64 as usize),
        2 => (o2 as fn(u64, f64, u32, f32, u64, f64, u8, f64, u64, f64, u64, u64, i64) -> f32 as usize, f2 as fn(u64, f64, u32, f32, u64, f64, u8, f64, u64, f64, u64, u64, i64) -> f32 as usize),
        3 => (o3 as fn(Big48, u64) -> [u64; 8] as usize, f3 as fn(Big48, u64) -> [u64; 8] as usize),
        4 => (o4 as fn(u64, u64) -> u128 as usize, f4 as fn(u64, u64) -> u128 as usize),
        5 => (o5 as fn(u64, i32) -> (u64, u64) as usize, f5 as fn(u64, i32) -> (u64, u64) as usize),
        6 => (o6 as extern "C" fn(u64, u64, u64, u64, u64, u64, u64, u64, f64, f64, f64, f64, f64, f64, f64, f64, f64) -> f64 as usize, f6 as extern "C" fn(u64, u64, u64, u64, u64, u64, u64, u64, f64, f64, f64, f64, f64, f64, f64, f64, f64) -> f64 as usize),
        7 => (o7 as extern "C" fn(Big48, u64) -> Big48 as usize, f7 as extern "C" fn(Big48, u64) -> Big48 as usize),
        8 => (o8 as fn(&mut [u64; 4], &str, u64) -> Option<u64> as usize, f8 as fn(&mut [u64; 4], &str, u64) -> Option<u64> as usize),
        _ => (o9 as fn(i8, i16, i32, i64, bool, char, u128) -> i128 as usize, f9 as fn(i8, i16, i32, i64, bool, char, u128) -> i128 as usize),
    }
}

/// Type-checked installation through the macros, on the real original.
fn install_checked(inj: &mut InjectorPP, k: u8) {
    match k % N_SHAPES {
        0 => inj.when_called(injectorpp::func!(fn (o0)(u64, u64, u64, u64, u64, u64, u64, u64, u64, u64, u64, u64) -> u64)).will_execute_raw(injectorpp::func!(fn (f0)(u64, u64, u64, u64, u64, u64, u64, u64, u64, u64, u64, u64) -> u64)),
        1 => inj.when_called(injectorpp::func!(fn (o1)(f64, f64, f64, f64, f64, f64, f64, f64, f64, f64) -> f64)).will_execute_raw(injectorpp::func!(fn (f1)(f64, f64, f64, f64, f64, f64, f64, f64, f64, f64) -> f64)),
        2 => inj.when_called(injectorpp::func!(fn (o2)(u64, f64, u32, f32, u64, f64, u8, f64, u64, f64, u64, u64, i64) -> f32)).will_execute_raw(injectorpp::func!(fn (f2)(u64, f64, u32, f32, u64, f64, u8, f64, u64, f64, u64, u64, i64) -> f32)),
        3 => inj.when_called(injectorpp::func!(fn (o3)(Big48, u64) -> [u64; 8])).will_execute_raw(injectorpp::func!(fn (f3)(Big48, u64) -> [u64; 8])),
        4 => inj.when_called(injectorpp::func!(fn (o4)(u64, u64) -> u128)).will_execute_raw(injectorpp::func!(fn (f4)(u64, u64) -> u128)),
        5 => inj.when_called(injectorpp::func!(fn (o5)(u64, i32) -> (u64, u64))).will_execute_raw(injectorpp::func!(fn (f5)(u64, i32) -> (u64, u64))),
        6 => inj.when_called(injectorpp::func!(o6, extern "C" fn(u64, u64, u64, u64, u64, u64, u64, u64, f64, f64, f64, f64, f64, f64, f64, f64, f64) -> f64)).will_execute_raw(injectorpp::func!(f6, extern "C" fn(u64, u64, u64, u64, u64, u64, u64, u64, f64, f64, f64, f64, f64, f64, f64, f64, f64) -> f64)),
        7 => inj.when_called(injectorpp::func!(o7, extern "C" fn(Big48, u64) -> Big48)).will_execute_raw(injectorpp::func!(f7, extern "C" fn(Big48, u64) -> Big48)),
        8 => inj.when_called(injectorpp::func!(fn (o8)(&mut [u64; 4], &str, u64) -> Option<u64>)).will_execute_raw(injectorpp::func!(fn (f8)(&mut [u64; 4], &str, u64) -> Option<u64>)),
        _ => inj.when_called(injectorpp::func!(fn (o9)(i8, i16, i32, i64, bool, char, u128) -> i128)).will_execute_raw(injectorpp::func!(fn (f9)(i8, i16, i32, i64, bool, char, u128) -> i128)),
    }
}

#[derive(Serialize, Deserialize, Clone, Debug, Hash, PartialEq, Eq)]
pub struct ShapeCase {
    pub shape: u8,
    /// None = real original (near fake); Some = synthetic original in an arena (far fake)
    pub arena: Option<(u8, u64, u16)>,
    pub vals: Vec<u64>,
}

#[derive(Serialize, Deserialize, Clone, Debug, Default)]
pub struct ShapeObs {
    pub status: String,
    pub why: String,
    pub direct: Vec<u64>,
    pub redirected: Vec<u64>,
    pub orig_runs: u64,
    pub long_form: bool,
    pub after_drop: Vec<u64>,
    pub orig_direct: Vec<u64>,
}

pub fn execute(c: &ShapeCase) -> ShapeObs {
    let mut o = ShapeObs::default();
    ip::plan_reset();
    ip::log_clear();
    let mut v = c.vals.clone();
    v.resize(16, 0);
    let (orig, fake) = addrs(c.shape);
    o.direct = unsafe { call_shape(c.shape, fake, &v) };
    let mut _arena = None;
    let target = match c.arena {
        None => orig,
        Some((class, page, off)) => {
            let base = synth_base(class, page) as usize;
            let Some(a) = Arena::map(base, 2 * PAGE) else {
                o.status = "discarded".into();
                o.why = "arena not mappable".into();
                return o;
            };
            let addr = base + (off as usize % PAGE);
            // a synthetic "original": ud2 -- it must never run
            a.put(addr, &[0x0F, 0x0B, 0x0F, 0x0B, 0x0F, 0x0B, 0x0F, 0x0B, 0x0F, 0x0B, 0x0F, 0x0B, 0x0F, 0x0B, 0x0F, 0x0B]);
            a.seal();
            _arena = Some(a);
            addr
        }
    };
    SHAPE_ORIG_RUNS.store(0, SeqCst);
    crate::worker::phase("install");
    let r = std::panic::catch_unwind(std::panic::AssertUnwindSafe(|| {
        ip::sut(|| {
            let mut inj = InjectorPP::new();
            if c.arena.is_none() {
                install_checked(&mut inj, c.shape);
            } else {
                unsafe {
                    inj.when_called_unchecked(FuncPtr::new(target as *const (), "")).will_execute_raw_unchecked(FuncPtr::new(fake as *const (), ""));
                }
            }
            inj
        })
    }));
    let inj = match r {
        Ok(i) => i,
        Err(_) => {
            o.status = "refused".into();
            o.why = crate::worker::last_panic();
            return o;
        }
    };
    for e in ip::log_snapshot() {
        if e.kind == ip::Kind::Mmap && e.ret != ip::MAP_FAILED as u64 && crate::maps::readable(e.ret as usize, 16) {
            let b = crate::mem::read_direct(e.ret as usize, 2);
            if b == [0x48, 0xB8] {
                o.long_form = true;
            }
        }
    }
    crate::worker::phase("call");
    o.redirected = unsafe { call_shape(c.shape, target, &v) };
    o.orig_runs = SHAPE_ORIG_RUNS.load(SeqCst);
    crate::worker::phase("drop");
    ip::sut(|| drop(inj));
    if c.arena.is_none() {
        crate::worker::phase("call-after-drop");
        o.after_drop = unsafe { call_shape(c.shape, target, &v) };
        o.orig_direct = o.after_drop.clone();
    }
    o.status = "ran".into();
    o
}

pub fn strategy() -> impl Strategy<Value = ShapeCase> {
    let w = prop_oneof![4 => any::<u64>(), 1 => Just(0u64), 1 => Just(u64::MAX), 1 => 0u64..256];
    (0u8..N_SHAPES, prop::option::weighted(0.5, (0u8..5, any::<u64>(), 0u16..0x1000)), prop::collection::vec(w, 16)).prop_map(|(shape, arena, vals)| ShapeCase { shape, arena, vals })
}

pub fn judge(rec: &mut Recorder, c: &ShapeCase, ex: Exec, _hello: &Value) -> Result<(), String> {
    let prop = rec.property.clone();
    let o: ShapeObs = match ex {
        Exec::Timeout => {
            rec.count("watchdog", 1);
            return Ok(());
        }
        Exec::Died { signal, code, phase, stderr_tail } => {
            let s = signal.map(signal_name).unwrap_or("exit");
            return rec.fail(&format!("{prop}/native-shapes/died/{s}/{phase}"), format!("worker died ({s} code {code:?}) in phase '{phase}' while executing {c:?}; stderr: {stderr_tail}"));
        }
        Exec::Obs(v) => {
            if let Some(e) = v.get("harness_error") {
                rec.inconclusive.push(format!("harness error: {e}"));
                return Ok(());
            }
            match serde_json::from_value(v) {
                Ok(o) => o,
                Err(e) => {
                    rec.inconclusive.push(format!("bad observation: {e}"));
                    return Ok(());
                }
            }
        }
    };
    if o.status == "discarded" {
        rec.count("discarded", 1);
        return Ok(());
    }
    rec.eval(|| json!({"case": c, "long_form": o.long_form, "direct": o.direct, "redirected": o.redirected}));
    let sig = |s: &str| format!("{prop}/native-shapes/shape{}/{}/{s}", c.shape % N_SHAPES, if o.long_form { "long" } else { "short" });
    if o.status == "refused" {
        return rec.fail(&sig("install-refused"), format!("installation refused: {}; case {c:?}", o.why));
    }
    rec.class(&format!("shape{}/{}", c.shape % N_SHAPES, if o.long_form { "long" } else { "short" }));
    if o.orig_runs != 0 {
        return rec.fail(&sig("original-body-ran"), format!("original ran {} times; case {c:?}", o.orig_runs));
    }
    if o.redirected != o.direct {
        return rec.fail(&sig("arguments-or-result-changed"), format!("calling the faked function gave {:x?}, calling the fake directly with the same arguments gives {:x?}; case {c:?}", o.redirected, o.direct));
    }
    rec.nontrivial(&(c.shape % N_SHAPES, o.long_form, &c.vals));
    Ok(())
}
