//! Engine S2: the *unmodified* `common.rs` (allocator loop, `PatchGuard::drop`,
//! `patch_function`, `inject_asm_code`, `clear_cache`) together with the arch patchers,
//! compiled on the host against the model-backed `simlibc`.  Memory is real (a lazily
//! committed low reservation, below 4 GiB so that the 32-bit ARM patcher's `as u32` casts are
//! faithful), the *layout* is the generated model.
//!
//! Decides on the arm64-linux / arm / amd64 code paths: C11 (placement within the finite reach
//! of AArch64 `B`, clean failure, rejected placements given back), C02 (restore for repeated
//! installs), C17 (flush covers every write with final content), and that every page a patch
//! touches was made writable first.

use libc::model::{self, Ev, Fallback, Model};
use proptest::prelude::*;
use serde::{Deserialize, Serialize};
use serde_json::{json, Value};
use vcommon::decoders::*;
use vcommon::{arg_value, cases, out_path, run_prop, Recorder};

const REGION_BASE: u64 = 0x0001_0000;
const REGION_SIZE: u64 = 0x4000_0000 - 0x0001_0000; // up to 1 GiB
const FAR_BASE: u64 = 0x6000_0000;
const FAR_PAGES: u64 = 16;
const WPAGES: i64 = 32768;

#[derive(Serialize, Deserialize, Clone, Copy, Debug, Hash, PartialEq, Eq)]
pub enum Variant {
    Arm64,
    Arm,
    Amd64,
}

#[derive(Serialize, Deserialize, Clone, Debug, Hash, PartialEq, Eq)]
pub enum Occupancy {
    /// every page free
    Empty,
    /// no page free
    Full,
    /// only these page offsets (relative to the target's page) are free
    OnlyFree(Vec<i64>),
    /// everything free except these page offsets
    Occupied(Vec<i64>),
}

#[derive(Serialize, Deserialize, Clone, Debug, Hash, PartialEq, Eq)]
pub struct S2Case {
    pub variant: Variant,
    /// target address (inside the region); bit 0 = Thumb for the Arm variant
    pub target: u64,
    pub occupancy: Occupancy,
    /// 0 far, 1 fail, 2 near(+delta)
    pub fallback: u8,
    pub near_delta: i16,
    pub fake: u64,
    /// None = function fake, Some(v) = forced boolean
    pub boolean: Option<bool>,
    /// install a second fake on the same target before dropping (C02 on the arm paths)
    pub twice: bool,
}

#[derive(Clone, Debug, Default)]
pub struct S2Obs {
    pub installed: Vec<bool>,
    pub panics: Vec<String>,
    pub before: Vec<u8>,
    pub after_install: Vec<Vec<u8>>,
    pub after_drop: Vec<u8>,
    pub live_after_install: Vec<Vec<(u64, usize)>>,
    pub live_after_drop: Vec<(u64, usize)>,
    pub log: Vec<Ev>,
    pub log_marks: Vec<usize>,
    pub double_unmaps: u64,
    pub foreign_unmaps: u64,
    pub writable_pages: Vec<Vec<u64>>,
    pub around_changed: bool,
    /// per install: where control ends up when the entry is followed right after the install
    pub dest: Vec<Option<Dest>>,
}

#[derive(Clone, Debug)]
pub struct Dest {
    /// "branch" (value = destination), "ret" (value = x0 / rax) or "unknown"
    pub kind: &'static str,
    pub value: Option<u64>,
    pub trace: Vec<String>,
    pub written: Vec<u8>,
    pub touched_sp: bool,
}

/// Follow the freshly patched entry through the trampoline (memory as it is right now).
fn decode_now(variant: Variant, target: u64, entry: u64, fake: u64) -> Dest {
    let m = RealMem;
    match variant {
        Variant::Arm64 => {
            let out = a64_run(&m, entry, 12);
            let (kind, value) = match &out.end {
                A64End::Br { value, .. } => ("branch", *value),
                A64End::Ret { .. } => ("ret", out.regs[0]),
                _ => ("unknown", None),
            };
            Dest { kind, value, trace: out.trace.clone(), written: out.written.iter().copied().collect(), touched_sp: out.touched_sp }
        }
        Variant::Arm => {
            let out = arm_run(&m, entry as u32, if target & 1 == 1 { ArmState::T32 } else { ArmState::A32 }, 6);
            let (kind, value) = match &out.end {
                ArmEnd::Bx { value, .. } => ("branch", value.map(|v| v as u64)),
                ArmEnd::LoadPc { value, .. } => ("branch", Some(*value as u64)),
                _ => ("unknown", None),
            };
            Dest { kind, value, trace: out.trace.clone(), written: out.written.iter().copied().collect(), touched_sp: false }
        }
        Variant::Amd64 => {
            let out = x86_follow(&m, entry, &[fake], 8);
            let (kind, value) = match &out.end {
                X86End::Arrived { at } => ("branch", Some(*at)),
                X86End::Ret { rax, .. } => ("ret", *rax),
                _ => ("unknown", None),
            };
            Dest { kind, value, trace: out.trace.clone(), written: vec![], touched_sp: false }
        }
    }
}

fn ensure_region() -> bool {
    use std::sync::OnceLock;
    static OK: OnceLock<bool> = OnceLock::new();
    *OK.get_or_init(|| unsafe {
        let flags = reallibc::MAP_PRIVATE | reallibc::MAP_ANONYMOUS | reallibc::MAP_NORESERVE | 0x100000;
        let a = reallibc::mmap(REGION_BASE as *mut _, REGION_SIZE as usize, reallibc::PROT_READ | reallibc::PROT_WRITE, flags, -1, 0);
        let b = reallibc::mmap(FAR_BASE as *mut _, (FAR_PAGES * 4096) as usize, reallibc::PROT_READ | reallibc::PROT_WRITE, flags, -1, 0);
        a as u64 == REGION_BASE && b as u64 == FAR_BASE
    })
}

#[no_mangle]
pub unsafe extern "C" fn __clear_cache(start: *mut u8, end: *mut u8) {
    if model::is_installed() {
        model::with(|m| m.flush(start as u64, end as u64));
    }
}

fn fill(addr: u64, len: usize, salt: u64) {
    for i in 0..len {
        unsafe { *((addr + i as u64) as *mut u8) = crate::shim::pattern(salt, addr + i as u64) | 1 };
    }
}

fn read(addr: u64, len: usize) -> Vec<u8> {
    unsafe { std::slice::from_raw_parts(addr as *const u8, len).to_vec() }
}

macro_rules! runner {
    ($name:ident, $variant:ident, $patcher_mod:ident, $patcher:ident) => {
        fn $name(c: &S2Case, entry: u64) -> S2Obs {
            use crate::$variant::injector_core::common::{FuncPtrInternal, PatchGuard};
            use crate::$variant::injector_core::patch_trait::PatchTrait;
            use crate::$variant::injector_core::$patcher_mod::$patcher as P;
            let mut o = S2Obs::default();
            let mk = |a: u64| unsafe { FuncPtrInternal::new(std::ptr::NonNull::new(a as usize as *mut ()).unwrap()) };
            let mut guards: Vec<PatchGuard> = vec![];
            let n = if c.twice { 2 } else { 1 };
            o.before = read(entry, 32);
            for k in 0..n {
                o.log_marks.push(model::with(|m| m.log.len()));
                crate::sut::IN_SUT.with(|f| f.set(true));
                let r = std::panic::catch_unwind(std::panic::AssertUnwindSafe(|| match c.boolean {
                    Some(v) if k == 0 => <P as PatchTrait>::replace_function_return_boolean(mk(c.target), v),
                    _ => <P as PatchTrait>::replace_function_with_other_function(mk(c.target), mk(c.fake.wrapping_add(16 * k as u64) | (c.fake & 1))),
                }));
                crate::sut::IN_SUT.with(|f| f.set(false));
                match r {
                    Ok(g) => {
                        guards.push(g);
                        o.installed.push(true);
                        o.dest.push(Some(decode_now(c.variant, c.target, entry, c.fake.wrapping_add(16 * k as u64) | (c.fake & 1))));
                    }
                    Err(_) => {
                        o.installed.push(false);
                        o.dest.push(None);
                        o.panics.push(crate::sut::last_panic());
                    }
                }
                o.after_install.push(read(entry, 32));
                o.live_after_install.push(model::with(|m| m.live.iter().map(|(a, l)| (*a, *l)).collect()));
                o.writable_pages.push(model::with(|m| m.writable.iter().copied().collect()));
            }
            o.log_marks.push(model::with(|m| m.log.len()));
            // the injector restores newest first
            crate::sut::IN_SUT.with(|f| f.set(true));
            let r = std::panic::catch_unwind(std::panic::AssertUnwindSafe(move || {
                while let Some(g) = guards.pop() {
                    drop(g);
                }
            }));
            crate::sut::IN_SUT.with(|f| f.set(false));
            if r.is_err() {
                o.panics.push(format!("drop: {}", crate::sut::last_panic()));
            }
            o.after_drop = read(entry, 32);
            model::with(|m| {
                o.live_after_drop = m.live.iter().map(|(a, l)| (*a, *l)).collect();
                o.log = m.log.clone();
                o.double_unmaps = m.double_unmaps;
                o.foreign_unmaps = m.foreign_unmaps + m.clobbered;
            });
            o
        }
    };
}
runner!(run_arm64, s2_arm64_linux, patch_arm64, PatchArm64);
runner!(run_arm, s2_arm, patch_arm, PatchArm);
runner!(run_amd64, s2_amd64, patch_amd64, PatchAmd64);

struct RealMem;
impl Mem for RealMem {
    fn byte(&self, addr: u64) -> u8 {
        let in_region = addr >= REGION_BASE && addr < REGION_BASE + REGION_SIZE;
        let in_far = addr >= FAR_BASE && addr < FAR_BASE + FAR_PAGES * 4096;
        if in_region || in_far {
            unsafe { *(addr as *const u8) }
        } else {
            0
        }
    }
}

pub fn execute(c: &S2Case) -> Option<S2Obs> {
    if !ensure_region() {
        return None;
    }
    let entry = if c.variant == Variant::Arm { c.target & !1 } else { c.target };
    let page = entry & !0xFFF;
    let mut m = Model::new(REGION_BASE, REGION_SIZE, FAR_BASE, FAR_PAGES);
    let rel = |p: &i64| -> Option<u64> {
        let a = page as i64 + p * 4096;
        if a >= REGION_BASE as i64 && (a as u64) < REGION_BASE + REGION_SIZE && a as u64 != page && a as u64 != page + 4096 {
            Some(a as u64)
        } else {
            None
        }
    };
    match &c.occupancy {
        Occupancy::Empty => {
            m.default_free = true;
        }
        Occupancy::Full => {
            m.default_free = false;
        }
        Occupancy::OnlyFree(v) => {
            m.default_free = false;
            m.free = v.iter().filter_map(rel).collect();
        }
        Occupancy::Occupied(v) => {
            m.default_free = true;
            m.occupied = v.iter().filter_map(rel).collect();
        }
    }
    // the target's own pages are never free
    m.occupied.insert(page);
    m.occupied.insert(page + 4096);
    m.fallback = match c.fallback % 3 {
        0 => Fallback::Far,
        1 => Fallback::Fail,
        _ => Fallback::Near(c.near_delta as i64),
    };
    // text is not writable until mprotect says so
    m.writable.clear();
    // filler and neighbourhood stay inside the target's own two pages (never free for mappings)
    let lo = entry.saturating_sub(32).max(page);
    fill(lo, (entry - lo) as usize + 96, c.fake ^ c.target);
    model::install(m);
    let around_before = (read(lo, (entry - lo) as usize), read(entry + 16, 48));
    let mut o = match c.variant {
        Variant::Arm64 => run_arm64(c, entry),
        Variant::Arm => run_arm(c, entry),
        Variant::Amd64 => run_amd64(c, entry),
    };
    o.around_changed = (read(lo, (entry - lo) as usize), read(entry + 16, 48)) != around_before;
    model::take();
    Some(o)
}

fn occupancy_strategy() -> impl Strategy<Value = Occupancy> {
    let extreme = prop_oneof![Just(-WPAGES - 1), Just(-WPAGES), Just(-WPAGES + 1), Just(WPAGES - 1), Just(WPAGES), Just(WPAGES + 1)];
    prop_oneof![
        2 => Just(Occupancy::Empty),
        1 => Just(Occupancy::Full),
        4 => extreme.prop_map(|p| Occupancy::OnlyFree(vec![p])),
        3 => (-WPAGES - 2..=WPAGES + 2).prop_map(|p| Occupancy::OnlyFree(vec![p])),
        2 => prop::collection::vec(-WPAGES - 2..=WPAGES + 2, 1..12).prop_map(Occupancy::OnlyFree),
        2 => prop::collection::vec(-WPAGES..=-WPAGES + 6, 1..6).prop_map(Occupancy::Occupied),
    ]
}

pub fn strategy(variants: Vec<Variant>) -> impl Strategy<Value = S2Case> {
    let target = prop_oneof![
        3 => (0x0900_0000u64..0x3000_0000, prop_oneof![Just(0u64), Just(0xFFCu64), Just(0xFF8), Just(0xFF4), Just(0x10), 0u64..0x1000]).prop_map(|(p, o)| (p & !0xFFF) | (o & !3)),
        2 => (0x0002_0000u64..0x0800_0000, prop_oneof![Just(0u64), 0u64..0x1000]).prop_map(|(p, o)| (p & !0xFFF) | (o & !3)),
    ];
    (proptest::sample::select(variants), target, occupancy_strategy(), 0u8..3, -8i16..8, (any::<u32>(), prop_oneof![3 => Just(0u32), 2 => any::<u32>(), 1 => Just(0xFFFF_0000u32), 1 => (0u32..0x1_0000)]), prop::option::weighted(0.25, any::<bool>()), prop::bool::weighted(0.3), 0u8..3).prop_map(|(variant, target, occupancy, fallback, near_delta, (fake, fake_hi), boolean, twice, tb)| {
        let target = match (variant, tb) {
            (Variant::Arm, 1) => target | 1,
            (Variant::Arm, 2) => (target | 2) | 1,
            (Variant::Amd64, _) => target | (tb as u64), // any byte alignment
            _ => target,
        };
        // 64-bit fakes on the 64-bit paths (incl. addresses with the top half-word set)
        let fake = if variant == Variant::Arm { fake as u64 } else { (fake as u64) | ((fake_hi as u64) << 32) };
        S2Case { variant, target, occupancy, fallback, near_delta, fake: fake.max(0x1000) & !2, boolean, twice }
    })
}

pub fn check(rec: &mut Recorder, c: &S2Case) -> Result<(), String> {
    let prop = rec.property.clone();
    let Some(o) = execute(c) else {
        rec.inconclusive.push("cannot reserve the low simulation region".into());
        return Ok(());
    };
    let entry = if c.variant == Variant::Arm { c.target & !1 } else { c.target };
    let vname = format!("{:?}", c.variant).to_lowercase();
    let sig = |s: &str| format!("{prop}/s2-{vname}/{s}");
    rec.eval(|| json!({"case": c, "installed": o.installed, "panics": o.panics, "live_after_install": o.live_after_install, "mmap_calls": o.log.iter().filter(|e| matches!(e, Ev::Mmap{..})).count()}));
    let occ = match &c.occupancy {
        Occupancy::Empty => "empty".to_string(),
        Occupancy::Full => "full".to_string(),
        Occupancy::OnlyFree(v) if v.len() == 1 => format!("one-free{}", if v[0].abs() >= WPAGES - 1 { "/extreme" } else { "" }),
        Occupancy::OnlyFree(_) => "few-free".to_string(),
        Occupancy::Occupied(_) => "first-hints-occupied".to_string(),
    };
    let clipped = entry < 0x800_0000;
    rec.class(&format!("{vname}/{occ}/{}{}{}", if o.installed.first() == Some(&true) { "installed" } else { "refused" }, if clipped { "/clipped" } else { "" }, if c.twice { "/twice" } else { "" }));
    if let Some(p) = o.panics.iter().find(|p| p.contains("placement search does not terminate")) {
        return rec.fail(&sig("placement-search-does-not-terminate"), format!("the allocator kept probing without end (the model stopped it: {p}): an installation must either place its trampoline or fail with a panic; case {c:?}"));
    }
    // ---- release discipline (C11 / C12 on these paths)
    if o.double_unmaps != 0 || o.foreign_unmaps != 0 {
        return rec.fail(&sig("bad-release"), format!("{} duplicate and {} foreign munmap calls; case {c:?}", o.double_unmaps, o.foreign_unmaps));
    }
    let mut expected_live = 0usize;
    for (k, inst) in o.installed.iter().enumerate() {
        let needs_jit = c.variant != Variant::Arm;
        if *inst {
            // an installation keeps at most one mapping (none if it needs no trampoline)
            let before = if k == 0 { 0 } else { o.live_after_install[k - 1].len() };
            let now = o.live_after_install[k].len();
            if needs_jit && now <= before + 1 && now >= before {
                expected_live = now;
            }
            if now != expected_live {
                return rec.fail(&sig("rejected-placement-left-mapped"), format!("after successful installation #{k} {now} mappings are outstanding ({before} before it; one installation keeps at most one): {:x?}; case {c:?}", o.live_after_install[k]));
            }
        } else {
            // refused: target untouched by this attempt, nothing new left mapped
            let prev = if k == 0 { &o.before } else { &o.after_install[k - 1] };
            if &o.after_install[k] != prev {
                return rec.fail(&sig("refused-but-target-modified"), format!("installation #{k} panicked ({:?}) after changing the target; case {c:?}", o.panics));
            }
            if o.live_after_install[k].len() != expected_live {
                return rec.fail(&sig("rejected-placement-left-mapped"), format!("installation #{k} panicked ({:?}) and left {} mapping(s) behind (expected {expected_live} live): {:x?}; case {c:?}", o.panics.last(), o.live_after_install[k].len(), o.live_after_install[k]));
            }
            rec.count("refused", 1);
        }
    }
    // ---- the entry leads to the kept trampoline, within the reach of the form written
    let m = RealMem;
    for (k, inst) in o.installed.iter().enumerate() {
        if !*inst {
            continue;
        }
        // only the state right after the *last* successful install is still in memory; decode it
        if k + 1 != o.installed.len() && o.installed[k + 1] {
            continue;
        }
        // re-materialise the bytes as they were after this install
        let now = read(entry, 32);
        unsafe { std::ptr::copy_nonoverlapping(o.after_install[k].as_ptr(), entry as *mut u8, 32) };
        let live: Vec<(u64, usize)> = o.live_after_install[k].clone();
        let verdict = match c.variant {
            Variant::Arm64 => {
                let out = a64_run(&m, entry, 1);
                match out.hops.first() {
                    Some(h) if live.iter().any(|(a, l)| *h >= *a && *h < *a + (*l as u64).max(1)) => Ok(()),
                    // (no trampoline kept: the entry may lead straight to the fake)
                    Some(h) if live.len() == (if k == 0 { 0 } else { o.live_after_install[k - 1].len() }) && *h == (c.fake.wrapping_add(16 * k as u64) | (c.fake & 1)) => Ok(()),
                    other => Err(format!("entry decodes to {other:?} (trace {:?}) which is not inside a mapping the injector kept ({live:x?})", out.trace)),
                }
            }
            Variant::Amd64 => {
                let out = x86_follow(&m, entry, &[], 1);
                match out.hops.first() {
                    Some(h) if live.iter().any(|(a, l)| *h >= *a && *h < *a + (*l as u64).max(1)) => Ok(()),
                    Some(h) if live.len() == (if k == 0 { 0 } else { o.live_after_install[k - 1].len() }) && *h == (c.fake.wrapping_add(16 * k as u64) | (c.fake & 1)) => Ok(()),
                    other => Err(format!("entry decodes to {other:?} (trace {:?}) which is not inside a mapping the injector kept ({live:x?})", out.trace)),
                }
            }
            Variant::Arm => Ok(()), // no trampoline on 32-bit ARM (C16 judges the bytes)
        };
        unsafe { std::ptr::copy_nonoverlapping(now.as_ptr(), entry as *mut u8, 32) };
        // an installation that keeps no mapping of its own may hold the whole replacement at the
        // entry: followed to its end (right after the install) it reached the fake / returned
        // the forced value
        let kept_before = if k == 0 { 0 } else { o.live_after_install[k - 1].len() };
        let verdict = match (&verdict, o.dest.get(k).and_then(|d| d.as_ref())) {
            (Err(_), Some(d)) if live.len() == kept_before => {
                let want_fake = c.fake.wrapping_add(16 * k as u64) | (c.fake & 1);
                let forced = if k == 0 { c.boolean } else { None };
                match forced {
                    Some(v) if d.kind == "ret" && d.value.map(|x| x & 0xFF) == Some(v as u64) => Ok(()),
                    None if d.kind == "branch" && d.value == Some(want_fake) => Ok(()),
                    _ => verdict,
                }
            }
            _ => verdict,
        };
        if let Err(e) = verdict {
            return rec.fail(&sig("branch-misses-trampoline"), format!("{e}; case {c:?}"));
        }
        // every page the patch touched had been made writable
        let patch_len = (0..32).rev().find(|i| o.after_install[k][*i] != if k == 0 { o.before[*i] } else { o.after_install[k - 1][*i] }).map(|i| i + 1).unwrap_or(0) as u64;
        if patch_len > 0 {
            let first = entry & !0xFFF;
            let last = (entry + patch_len - 1) & !0xFFF;
            for p in [first, last] {
                if !o.writable_pages[k].contains(&p) {
                    return rec.fail(&sig("page-not-made-writable"), format!("the patch wrote [{entry:#x},+{patch_len}) but page {p:#x} was never passed to mprotect(..WRITE..) (writable pages {:x?}); case {c:?}", o.writable_pages[k]));
                }
            }
        }
    }
    // ---- C15 / C16 (and C01 on the amd64 path): followed through the trampoline, every successful
    //      installation ends at exactly its fake (or returns exactly the forced value)
    if matches!(prop.as_str(), "C15" | "C16" | "C01") {
        for (k, d) in o.dest.iter().enumerate() {
            let Some(d) = d else { continue };
            let want_fake = c.fake.wrapping_add(16 * k as u64) | (c.fake & 1);
            let forced = if k == 0 { c.boolean } else { None };
            match forced {
                None => {
                    if d.kind != "branch" || d.value != Some(want_fake) {
                        return rec.fail(&sig("wrong-destination"), format!("installation #{k}: followed from the entry {entry:#x}, control ends in {} {:x?}, the fake is {want_fake:#x}; trace {:?}; case {c:?}", d.kind, d.value, d.trace));
                    }
                    rec.class(&format!("{vname}/decoded-to-fake{}", if want_fake >> 32 != 0 { "/above-4GiB" } else { "" }));
                }
                Some(v) if c.variant != Variant::Arm => {
                    if d.kind != "ret" || d.value.map(|x| x & 0xFF) != Some(v as u64) {
                        return rec.fail(&sig("boolean-stub-wrong"), format!("forced boolean {v}: followed from the entry, control ends in {} {:x?}; trace {:?}; case {c:?}", d.kind, d.value, d.trace));
                    }
                    rec.class(&format!("{vname}/decoded-to-boolean-stub"));
                }
                Some(_) => {
                    // 32-bit ARM branches to a helper of the library itself (a host address here)
                    if d.kind != "branch" {
                        return rec.fail(&sig("boolean-stub-wrong"), format!("forced boolean: the entry does not decode to a load and branch: trace {:?}; case {c:?}", d.trace));
                    }
                }
            }
            if d.touched_sp {
                return rec.fail(&sig("touches-sp"), format!("sequence uses sp: {:?}", d.trace));
            }
            if c.variant == Variant::Arm64 {
                for r in &d.written {
                    if !((9..=17).contains(r) || (forced.is_some() && *r == 0)) {
                        return rec.fail(&sig(&format!("clobbers=x{r}")), format!("sequence writes x{r}: {:?}", d.trace));
                    }
                }
            }
        }
    }
    // ---- C02 on these paths: bytes back, nothing left mapped
    if o.after_drop != o.before {
        return rec.fail(&sig(if c.twice { "not-restored-after-repeated-install" } else { "not-restored" }), format!("after dropping the guards the entry is {:02x?}, originally {:02x?}; case {c:?}", &o.after_drop[..16], &o.before[..16]));
    }
    if !o.live_after_drop.is_empty() {
        return rec.fail(&sig("trampoline-not-released"), format!("after the drop {:x?} still mapped; case {c:?}", o.live_after_drop));
    }
    if o.around_changed {
        return rec.fail(&sig("bytes-around-the-entry-changed"), format!("bytes outside [entry, entry+16) changed; case {c:?}"));
    }
    // ---- C17 on these paths: every changed byte lies in a later flush that saw its final value
    let marks = &o.log_marks;
    for k in 0..o.installed.len() {
        if !o.installed[k] {
            continue;
        }
        let prev = if k == 0 { &o.before } else { &o.after_install[k - 1] };
        let seg = &o.log[marks[k]..marks[k + 1]];
        for i in 0..32 {
            if o.after_install[k][i] != prev[i] {
                let a = entry + i as u64;
                let ok = seg.iter().any(|e| matches!(e, Ev::Flush { start, end, bytes } if a >= *start && a < *end && bytes.get((a - start) as usize) == Some(&o.after_install[k][i])));
                if !ok {
                    return rec.fail(&sig("entry-patch-not-flushed"), format!("install #{k}: byte {a:#x} changed but no flush in between covers it with its final content; flushes {:x?}; case {c:?}", seg.iter().filter_map(|e| if let Ev::Flush { start, end, .. } = e { Some((*start, *end)) } else { None }).collect::<Vec<_>>()));
                }
            }
        }
    }
    let last = o.installed.iter().rposition(|x| *x);
    if let Some(k) = last {
        let seg = &o.log[*marks.last().unwrap()..];
        for i in 0..32 {
            if o.after_drop[i] != o.after_install[k][i] {
                let a = entry + i as u64;
                let ok = seg.iter().any(|e| matches!(e, Ev::Flush { start, end, bytes } if a >= *start && a < *end && bytes.get((a - start) as usize) == Some(&o.after_drop[i])));
                if !ok {
                    return rec.fail(&sig("restoration-not-flushed"), format!("byte {a:#x} restored but no flush afterwards covers it with its final content; case {c:?}"));
                }
            }
        }
    }
    let searched = o.log.iter().filter(|e| matches!(e, Ev::Mmap { .. })).count() > 1;
    if searched || clipped || c.twice || matches!(&c.occupancy, Occupancy::OnlyFree(v) if v.len() == 1 && v[0].abs() >= WPAGES - 1) {
        rec.nontrivial(&c);
    }
    Ok(())
}

pub fn cmd(prop: &str) -> i32 {
    let variants: Vec<Variant> = match arg_value("--variants").as_deref() {
        Some(s) => s.split(',').filter_map(|v| match v { "arm64" => Some(Variant::Arm64), "arm" => Some(Variant::Arm), "amd64" => Some(Variant::Amd64), _ => None }).collect(),
        None => vec![Variant::Arm64, Variant::Arm64, Variant::Arm, Variant::Amd64],
    };
    let rule = "S2: real common.rs + arch patchers on the host against model-backed libc (real low memory, generated layout): (target incl. below 128 MiB and page-straddling offsets, occupancy {empty, full, one free page at -R-1..R+1 pages incl. the extremes, few free, first hints occupied}, occupied-hint behaviour {far, fail, near}, fake, function/boolean, install once or twice) ; oracle: success => entry decodes into the mapping kept (finite reach of AArch64 B), exactly the kept mappings outstanding, pages written were mprotect'ed writable; panic => target untouched, nothing new left mapped; after dropping newest-first the bytes are original and nothing is mapped; every changed byte was flushed with its final content; non-trivial = a search beyond the first hint, a clipped window, an extreme free page or a repeated install; distinct by case";
    let mut rec = Recorder::new(prop, "s2", rule);
    rec.assumptions.push("simlibc model of mmap/munmap/mprotect (hint rounded down as calibrated natively; occupied hint -> far / fail / near); `libc` renamed to the model crate, common.rs itself unmodified".into());
    crate::sut::quiet_panics();
    // enumerated extremes first: page-aligned and unaligned targets x every extreme free page
    'e: for variant in variants.iter().copied().collect::<std::collections::BTreeSet<_>>() {
        for target in [0x2000_0000u64, 0x2000_0FFC, 0x2000_0804, 0x0400_0000] {
            for p in [-WPAGES - 1, -WPAGES, -WPAGES + 1, -1, 2, WPAGES - 1, WPAGES, WPAGES + 1] {
                for twice in [false, true] {
                    let c = S2Case { variant, target: if variant == Variant::Arm { target & !3 } else { target }, occupancy: Occupancy::OnlyFree(vec![p]), fallback: 0, near_delta: 0, fake: 0x3000_1000, boolean: None, twice };
                    if let Err(m) = check(&mut rec, &c) {
                        let sig = m.split(']').next().unwrap_or("").trim_start_matches('[').to_string();
                        rec.violation(&sig, &m, json!({"S2Case": c}));
                        break 'e;
                    }
                }
            }
        }
    }
    rec.exhaustive_parts.push("free page at every extreme offset (-R-1, -R, -R+1, R-1, R, R+1 pages) x 4 targets (page-aligned, page-straddling, unaligned, below 128 MiB) x once/twice, per variant".into());
    if rec.violations.is_empty() {
        let n = cases(3000, 400_000);
        let stream = 22 + prop.bytes().fold(0u64, |a, b| a * 31 + b as u64) % 1000;
        let out = run_prop(stream, n, strategy(variants), |c| {
            let r = check(&mut rec, c);
            if r.is_err() {
                rec.freeze();
            }
            r
        });
        if let Some((case, msg)) = out.failure {
            let sig = msg.split(']').next().unwrap_or("").trim_start_matches('[').to_string();
            rec.unfreeze();
            rec.violation(&sig, &msg, json!({"S2Case": case}));
        }
    }
    rec.finish(&out_path())
}

impl PartialOrd for Variant {
    fn partial_cmp(&self, other: &Self) -> Option<std::cmp::Ordering> {
        Some(self.cmp(other))
    }
}
impl Ord for Variant {
    fn cmp(&self, other: &Self) -> std::cmp::Ordering {
        (*self as u8).cmp(&(*other as u8))
    }
}

pub fn replay(rec: &mut Recorder, _prop: &str, case: &Value) -> Result<(), String> {
    crate::sut::quiet_panics();
    let c: S2Case = serde_json::from_value(case["S2Case"].clone()).map_err(|e| format!("bad S2Case: {e}"))?;
    check(rec, &c)
}
