#!/bin/bash
# Run once in /verif after a fresh restore, offline: builds the engines from files on disk only.
set -e
cd "$(dirname "$0")"
export CARGO_NET_OFFLINE=true
mkdir -p work/partials work/replays evidence
./check sync
cd harness
cargo build --offline 2>&1 | tail -3
cargo build --offline -p vsim -p vnative --profile noassert 2>&1 | tail -1
