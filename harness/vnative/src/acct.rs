//! Accounting of the injector's own mappings against its `munmap` calls.  An implementation may
//! release several of its mappings with one call when they are neighbours, so a release is judged
//! against the *set* of live mappings: every live mapping it touches must be covered completely.

use std::collections::BTreeMap;

#[derive(Debug, PartialEq, Eq, Clone, Copy)]
pub enum Release {
    /// this many whole live mappings were released (>= 1); `beyond`: the range also covered pages
    /// that are not the injector's (harmless if nothing is mapped there, so not a verdict in itself:
    /// foreign pages that vanish are seen by the page snapshots)
    Whole { mappings: usize, beyond: bool },
    /// the range touches none of the injector's live mappings
    Foreign,
    /// a live mapping is covered only in part
    Partial,
}

fn round(len: u64) -> u64 {
    (len.max(1) + 4095) & !4095
}

pub fn release(live: &mut BTreeMap<u64, u64>, addr: u64, len: u64) -> Release {
    let start = addr & !0xFFF;
    let end = start + round(len + (addr - start));
    let hit: Vec<(u64, u64)> = live.iter().filter(|(a, l)| **a < end && **a + round(**l) > start).map(|(a, l)| (*a, *l)).collect();
    if hit.is_empty() {
        return Release::Foreign;
    }
    if hit.iter().any(|(a, l)| *a < start || a + round(*l) > end) {
        return Release::Partial;
    }
    let covered: u64 = hit.iter().map(|(_, l)| round(*l)).sum();
    for (a, _) in &hit {
        live.remove(a);
    }
    Release::Whole { mappings: hit.len(), beyond: covered != end - start }
}
