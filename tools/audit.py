#!/usr/bin/env python3
"""
Sensitivity audit: applies each catalogued source mutation (or a seeded patch from
/verif/seeded/<id>/patch.diff) to a scratch copy of the repository OUTSIDE /repo and /verif,
points the checks at it (VERIF_REPO), and expects a VIOLATION from the quick tier of the
listed properties.  The scratch copy and its build output are removed afterwards; evidence
written during the audit goes to work/audit-evidence, never to /verif/evidence.

usage: tools/audit.py [--suite] [--only name-substring] [--seeded]
  --suite   also run the repository's own tests on each mutant (slow; shared target dir under /var/tmp)
"""
import json, os, shutil, subprocess, sys, time

VERIF = os.path.dirname(os.path.dirname(os.path.abspath(__file__)))
REPO = "/repo"
sys.path.insert(0, os.path.join(VERIF, "tools"))
from mutations import MUTATIONS  # noqa


def sh(cmd, **kw):
    return subprocess.run(cmd, stdout=subprocess.PIPE, stderr=subprocess.STDOUT, text=True, **kw)


def make_scratch(name):
    d = f"/var/tmp/verif-mut-{os.getpid()}-{name}"
    shutil.rmtree(d, ignore_errors=True)
    os.makedirs(d)
    for x in ["Cargo.toml", "Cargo.lock", "src", "tests"]:
        src = os.path.join(REPO, x)
        if os.path.isdir(src):
            shutil.copytree(src, os.path.join(d, x))
        else:
            shutil.copy(src, os.path.join(d, x))
    return d


def apply_edits(d, edits):
    for (rel, old, new, *rest) in edits:
        count = rest[0] if rest else 1
        which = rest[1] if len(rest) > 1 else None  # replace only this occurrence (0-based)
        p = os.path.join(d, rel)
        s = open(p).read()
        if s.count(old) != count:
            return f"pattern occurs {s.count(old)} times (expected {count}) in {rel}: {old[:60]!r}"
        if which is None:
            s = s.replace(old, new)
        else:
            pos = -1
            for _ in range(which + 1):
                pos = s.find(old, pos + 1)
            s = s[:pos] + new + s[pos + len(old):]
        open(p, "w").write(s)
    return None


def run_checks(d, props, seed="1"):
    out = {}
    env = dict(os.environ, VERIF_REPO=d, VERIF_EVIDENCE_DIR=os.path.join(VERIF, "work", "audit-evidence"), VERIF_SEED=seed)
    for p in props:
        t0 = time.time()
        r = sh([os.path.join(VERIF, "check"), p, "quick"], env=env, cwd=VERIF)
        viol = [l for l in r.stdout.splitlines() if l.startswith("VIOLATION")]
        out[p] = {"exit": r.returncode, "violations": len(viol), "wall": round(time.time() - t0, 1), "tail": r.stdout[-400:] if r.returncode not in (0, 1) else ""}
    return out


def run_suite(d):
    env = dict(os.environ, CARGO_TARGET_DIR="/var/tmp/verif-mut-target", CARGO_NET_OFFLINE="true")
    r = sh(["cargo", "test", "--offline", "--no-fail-fast"], cwd=d, env=env)
    ok = r.returncode == 0
    return ok, r.stdout[-600:]


def main():
    only = None
    if "--only" in sys.argv:
        only = sys.argv[sys.argv.index("--only") + 1]
    suite = "--suite" in sys.argv
    results = []
    items = []
    if "--seeded" in sys.argv:
        sd = os.path.join(VERIF, "seeded")
        for name in sorted(os.listdir(sd)) if os.path.isdir(sd) else []:
            meta = json.load(open(os.path.join(sd, name, "meta.json")))
            items.append({"name": "seeded/" + name, "props": meta.get("checks", [meta["property"]]), "patch": os.path.join(sd, name, "patch.diff"), "expected": meta.get("expected", "caught")})
    else:
        for m in MUTATIONS:
            items.append(m)
    for m in items:
        if only and only not in m["name"]:
            continue
        d = make_scratch(m["name"].replace("/", "_"))
        try:
            if "patch" in m:
                r = sh(["git", "apply", "--unsafe-paths", "-p1", "--directory", d.lstrip("/"), m["patch"]], cwd="/")
                err = None if r.returncode == 0 else r.stdout
                if err:
                    r = sh(["patch", "-p1", "-i", m["patch"]], cwd=d)
                    err = None if r.returncode == 0 else r.stdout
            else:
                err = apply_edits(d, m["edits"])
            if err:
                results.append({"name": m["name"], "error": err})
                print(f"{m['name']:44s} ERROR {err}")
                continue
            res = run_checks(d, m["props"])
            caught = [p for p, v in res.items() if v["exit"] == 1]
            line = {"name": m["name"], "props": m["props"], "caught_by": caught, "results": res, "expected": m.get("expected", "caught")}
            if suite:
                ok, tail = run_suite(d)
                line["suite_passes"] = ok
            results.append(line)
            status = "CAUGHT" if caught else ("MISSED (recorded limit, see DESIGN.md section 6)" if m.get("expected") == "missed" else "MISSED")
            print(f"{m['name']:44s} {status:7s} " + " ".join(f"{p}:exit{v['exit']}({v['wall']}s)" for p, v in res.items()) + (f" suite={'pass' if line.get('suite_passes') else 'FAIL'}" if suite else ""), flush=True)
            for p, v in res.items():
                if v["tail"]:
                    print("    ", v["tail"].replace("\n", "\n     "))
        finally:
            shutil.rmtree(d, ignore_errors=True)
    # restore the synced copy to the real repository
    sh([os.path.join(VERIF, "check"), "sync"], cwd=VERIF)
    os.makedirs(os.path.join(VERIF, "work"), exist_ok=True)
    json.dump(results, open(os.path.join(VERIF, "work", "audit-results.json"), "w"), indent=1)
    missed = [r["name"] for r in results if "caught_by" in r and not r["caught_by"] and r.get("expected") != "missed"]
    print(f"\n{len(results)} mutants, {len(missed)} missed: {missed}")
    return 1 if missed else 0


if __name__ == "__main__":
    sys.exit(main())
