//! Synthetic code arenas: regions mapped at generated absolute addresses and filled with tiny
//! position-independent functions, then made r-x like real program text.

use crate::interpose::{map_fixed_noreplace, sys_mprotect, sys_munmap};

pub const PAGE: usize = 4096;

pub struct Arena {
    pub base: usize,
    pub len: usize,
}

impl Arena {
    /// Map `[base, base+len)` (page aligned) or return None if the range is not free / not
    /// mappable (the case is then discarded and counted).
    pub fn map(base: usize, len: usize) -> Option<Arena> {
        if base % PAGE != 0 || len == 0 || len % PAGE != 0 || base < 0x10000 || base.checked_add(len).map(|e| e > 0x7FFF_FFFF_F000).unwrap_or(true) {
            return None;
        }
        let ok = unsafe { map_fixed_noreplace(base, len, libc::PROT_READ | libc::PROT_WRITE) };
        if !ok {
            return None;
        }
        // fill with int3 so that straying into padding is a visible SIGTRAP, not silence
        unsafe { std::ptr::write_bytes(base as *mut u8, 0xCC, len) };
        Some(Arena { base, len })
    }

    pub fn contains(&self, addr: usize, n: usize) -> bool {
        addr >= self.base && addr + n <= self.base + self.len
    }

    /// `mov eax, id ; ret` (6 bytes)
    pub fn put_ret_id(&self, addr: usize, id: u32) -> bool {
        let mut code = [0xB8u8, 0, 0, 0, 0, 0xC3];
        code[1..5].copy_from_slice(&id.to_le_bytes());
        self.put(addr, &code)
    }

    /// A function of entry shape `shape` that returns `id`:
    ///   0 `mov eax,id; ret`            1 `jmp rel32` forwarder to a body 48 bytes further
    ///   2 `jmp short` forwarder        3 `endbr64; mov eax,id; ret`
    ///   4 `jmp [rip+0]; .quad body`    (PLT-like indirect thunk)
    /// Forwarders are ordinary functions (tail-call wrappers, linker thunks): naming one in an
    /// installation designates *its* entry, not the entry of what it jumps to.
    /// Returns the address of the separate body (if any) so that callers can watch it.
    pub fn put_shaped(&self, addr: usize, id: u32, shape: u8) -> Option<usize> {
        match shape % 5 {
            1 => {
                let body = addr + 48;
                let rel = (body as i64 - (addr as i64 + 5)) as i32;
                let mut code = vec![0xE9u8];
                code.extend_from_slice(&rel.to_le_bytes());
                if self.put(addr, &code) && self.put_ret_id(body, id) { Some(body) } else { self.put_ret_id(addr, id); None }
            }
            2 => {
                let body = addr + 48;
                if self.put(addr, &[0xEB, 46]) && self.put_ret_id(body, id) { Some(body) } else { self.put_ret_id(addr, id); None }
            }
            3 => {
                let mut code = vec![0xF3u8, 0x0F, 0x1E, 0xFA, 0xB8];
                code.extend_from_slice(&id.to_le_bytes());
                code.push(0xC3);
                self.put(addr, &code);
                None
            }
            4 => {
                let body = addr + 48;
                let mut code = vec![0xFFu8, 0x25, 0, 0, 0, 0];
                code.extend_from_slice(&(body as u64).to_le_bytes());
                if self.put(addr, &code) && self.put_ret_id(body, id) { Some(body) } else { self.put_ret_id(addr, id); None }
            }
            _ => {
                self.put_ret_id(addr, id);
                None
            }
        }
    }

    /// A function whose entry is padding: `shape` 6..=14 gives 8..=16 bytes of `endbr64` (even
    /// shapes) and one-byte `nop`s before the first real instruction `mov eax, id; ret` (an entry
    /// label in front of alignment padding that falls through into the code).  With 16 bytes of
    /// padding the code itself sits in the next 16-byte slot.
    pub fn put_sled(&self, addr: usize, id: u32, shape: u8) -> bool {
        let pad = 8 + (shape.clamp(6, 14) - 6) as usize;
        let mut code: Vec<u8> = vec![];
        if shape % 2 == 0 {
            code.extend_from_slice(&[0xF3, 0x0F, 0x1E, 0xFA]);
        }
        while code.len() < pad {
            code.push(0x90);
        }
        code.push(0xB8);
        code.extend_from_slice(&id.to_le_bytes());
        code.push(0xC3);
        self.put(addr, &code)
    }

    pub fn put(&self, addr: usize, code: &[u8]) -> bool {
        if !self.contains(addr, code.len()) {
            return false;
        }
        unsafe { std::ptr::copy_nonoverlapping(code.as_ptr(), addr as *mut u8, code.len()) };
        true
    }

    /// A function with a generated, harmless prologue (1-3 instructions drawn from a small grammar
    /// of what compilers put first: register moves, small adds, SSE moves, nops, endbr64, frame and
    /// callee-saved pushes with matching pops), then `mov eax, id; <pops>; ret`.  Varies the bytes
    /// an entry patch overwrites.  Returns the length written (<= 32) or 0 if it does not fit.
    pub fn put_prologue_fn(&self, addr: usize, id: u32, seed: u64) -> usize {
        let mut x = seed ^ 0x9E37_79B9_7F4A_7C15;
        let mut next = || {
            x ^= x << 13;
            x ^= x >> 7;
            x ^= x << 17;
            x
        };
        let caller_saved = [0u8, 1, 2, 6, 7]; // rax rcx rdx rsi rdi
        let mut code: Vec<u8> = vec![];
        let mut epilogue: Vec<Vec<u8>> = vec![];
        let n = 1 + (next() % 3) as usize;
        let (mut pushed_rbx, mut pushed_rbp, mut sub_rsp) = (false, false, false);
        for _ in 0..n {
            match next() % 8 {
                0 => {
                    let dst = caller_saved[(next() % 5) as usize];
                    let src = (next() % 8) as u8;
                    code.extend_from_slice(&[0x48, 0x89, 0xC0 | (src << 3) | dst]);
                }
                1 => {
                    let dst = caller_saved[(next() % 5) as usize];
                    code.extend_from_slice(&[0x48, 0x83, 0xC0 | dst, next() as u8]);
                }
                2 => code.extend_from_slice(&[0x66, 0x0F, 0x6F, 0xC0 | (next() % 64) as u8]),
                3 => code.extend_from_slice(if next() % 2 == 0 { &[0x0F, 0x1F, 0x40, 0x00][..] } else { &[0x66, 0x90][..] }),
                4 if !pushed_rbx && !sub_rsp => {
                    pushed_rbx = true;
                    let src = (next() % 8) as u8;
                    code.extend_from_slice(&[0x53, 0x48, 0x89, 0xC0 | (src << 3) | 3]);
                    epilogue.push(vec![0x5B]);
                }
                5 if !pushed_rbp && !sub_rsp && code.is_empty() => {
                    pushed_rbp = true;
                    code.extend_from_slice(&[0x55, 0x48, 0x89, 0xE5]);
                    epilogue.push(vec![0x5D]);
                }
                6 if code.is_empty() => code.extend_from_slice(&[0xF3, 0x0F, 0x1E, 0xFA]),
                7 if !sub_rsp && !pushed_rbp => {
                    sub_rsp = true;
                    let k = [8u8, 24, 40][(next() % 3) as usize];
                    code.extend_from_slice(&[0x48, 0x83, 0xEC, k]);
                    epilogue.push(vec![0x48, 0x83, 0xC4, k]);
                }
                _ => code.push(0x90),
            }
        }
        code.push(0xB8);
        code.extend_from_slice(&id.to_le_bytes());
        for e in epilogue.iter().rev() {
            code.extend_from_slice(e);
        }
        code.push(0xC3);
        if code.len() > 32 || !self.put(addr, &code) {
            return 0;
        }
        code.len()
    }

    /// text-like protection
    pub fn seal(&self) {
        unsafe { sys_mprotect(self.base, self.len, libc::PROT_READ | libc::PROT_EXEC) };
    }

    pub fn bytes(&self, addr: usize, n: usize) -> Vec<u8> {
        assert!(self.contains(addr, n));
        unsafe { std::slice::from_raw_parts(addr as *const u8, n).to_vec() }
    }
}

impl Drop for Arena {
    fn drop(&mut self) {
        unsafe { sys_munmap(self.base, self.len) };
    }
}
