#!/bin/bash
# Converse audit: every check must stay silent (exit 0, KNOWN-FINDING lines allowed) on the
# unchanged tree for several seeds, each from a fresh process.  Evidence goes to a scratch dir.
cd "$(dirname "$0")/.."
export VERIF_EVIDENCE_DIR="${VERIF_EVIDENCE_DIR:-$PWD/work/silence-evidence}"
seeds="${*:-2 3 7 12345 987654321}"
bad=0
for s in $seeds; do
  for p in C01 C02 C03 C04 C05 C06 C07 C08 C09 C10 C11 C12 C13 C14 C15 C16 C17; do
    out=$(VERIF_SEED=$s ./check $p quick 2>&1); rc=$?
    if [ $rc -ne 0 ]; then bad=$((bad+1)); echo "SEED $s $p exit $rc"; echo "$out" | grep -v KNOWN-FINDING | tail -5; fi
  done
  echo "seed $s done"
done
echo "non-silent runs: $bad"
exit $([ $bad -eq 0 ] && echo 0 || echo 1)
