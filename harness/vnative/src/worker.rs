//! Worker side: a child process that executes cases against the real crate and reports what
//! it observed.  It re-executes itself once with ASLR disabled so that layouts are identical
//! run to run (a run is then a function of the tree and VERIF_SEED).

use crate::interpose as ip;
use serde_json::{json, Value};
use std::cell::RefCell;
use std::io::{BufRead, Write};
use std::sync::atomic::{AtomicU64, Ordering::SeqCst};

thread_local! {
    static LAST_PANIC: RefCell<String> = const { RefCell::new(String::new()) };
}
pub static PANIC_COUNT: AtomicU64 = AtomicU64::new(0);
static PANIC_LOG: std::sync::Mutex<Vec<String>> = std::sync::Mutex::new(Vec::new());

/// Set when a case leaves a real target modified: the process must not run another case.
pub static TAINT: std::sync::atomic::AtomicBool = std::sync::atomic::AtomicBool::new(false);
static PRISTINE: std::sync::OnceLock<Vec<(usize, Vec<u8>)>> = std::sync::OnceLock::new();

pub fn pristine_init() {
    PRISTINE.get_or_init(|| {
        let mut v: Vec<(usize, Vec<u8>)> = crate::targets::real_targets().iter().chain(crate::targets::async_targets().iter()).map(|t| (t.addr, crate::mem::read_bytes(t.addr, 32))).collect();
        for (_, _, _, a) in crate::targets::bystanders() {
            v.push((a, crate::mem::read_bytes(a, 32)));
        }
        v
    });
}

/// The bytes this process saw at `addr` before any injector existed (real targets only).
pub fn pristine_of(addr: usize) -> Option<Vec<u8>> {
    PRISTINE.get().and_then(|v| v.iter().find(|x| x.0 == addr).map(|x| x.1.clone()))
}

pub fn taint_check() {
    if let Some(v) = PRISTINE.get() {
        for (a, b) in v {
            if &crate::mem::read_bytes(*a, 32) != b {
                TAINT.store(true, SeqCst);
            }
        }
    }
}

/// Runs `f` from a destructor that executes while the thread unwinds from a panic (tear-down
/// code of a fixture after a failed test body): `std::thread::panicking()` is true inside.
/// `f` must not unwind itself (callers catch inside).
pub fn while_unwinding<R>(f: impl FnOnce() -> R) -> R {
    struct TearDown<'a>(Option<Box<dyn FnOnce() + 'a>>);
    impl Drop for TearDown<'_> {
        fn drop(&mut self) {
            if let Some(f) = self.0.take() {
                f()
            }
        }
    }
    let mut out: Option<R> = None;
    let _ = std::panic::catch_unwind(std::panic::AssertUnwindSafe(|| {
        let _fixture = TearDown(Some(Box::new(|| out = Some(f()))));
        panic!("the body of the test fails; the fixture's tear-down runs while the thread unwinds");
    }));
    out.expect("tear-down code ran")
}

pub fn last_panic() -> String {
    LAST_PANIC.with(|p| p.borrow().clone())
}
pub fn panic_log_take() -> Vec<String> {
    std::mem::take(&mut *PANIC_LOG.lock().unwrap_or_else(|e| e.into_inner()))
}

pub fn install_panic_hook() {
    std::panic::set_hook(Box::new(|info| {
        let msg = if let Some(s) = info.payload().downcast_ref::<&str>() {
            s.to_string()
        } else if let Some(s) = info.payload().downcast_ref::<String>() {
            s.clone()
        } else {
            "<non-string panic>".to_string()
        };
        PANIC_COUNT.fetch_add(1, SeqCst);
        crate::panics::on_panic_snapshot();
        LAST_PANIC.with(|p| *p.borrow_mut() = msg.clone());
        if let Ok(mut l) = PANIC_LOG.lock() {
            if l.len() < 64 {
                l.push(msg);
            }
        }
    }));
}

/// Progress marker: lets the driver say in which phase a worker died.
pub fn phase(p: &str) {
    let out = std::io::stdout();
    let mut l = out.lock();
    let _ = writeln!(l, "#phase {p}");
    let _ = l.flush();
}

fn disable_aslr_and_reexec() {
    if std::env::var("VNATIVE_NOASLR").is_ok() {
        return;
    }
    unsafe {
        let cur = libc::personality(0xffffffff);
        if cur != -1 && libc::personality((cur as u64 | 0x0040000) as libc::c_ulong) != -1 {
            use std::os::unix::process::CommandExt;
            let exe = std::env::current_exe().expect("exe");
            let err = std::process::Command::new(exe).args(std::env::args().skip(1)).env("VNATIVE_NOASLR", "1").exec();
            eprintln!("vnative worker: re-exec failed: {err}");
        }
    }
    std::env::set_var("VNATIVE_NOASLR", "failed");
}

/// One plain installation under pass-through interposition: the interposer must have seen
/// mmap, mprotect and __clear_cache, otherwise the observation channel is broken and the
/// checks that depend on it must say "inconclusive" instead of judging.
pub fn calibrate() -> Value {
    use injectorpp::interface::injector::*;
    ip::plan_reset();
    ip::log_clear();
    // a dedicated function (not in any target list), so that a tree whose restoration is broken
    // does not taint the targets before the first case
    let before = cal_target();
    let during;
    let pages0 = crate::maps::anon_exec_pages();
    let mut pages_during = vec![];
    {
        let mut inj = ip::sut(InjectorPP::new);
        ip::sut(|| {
            inj.when_called(injectorpp::func!(fn (cal_target)() -> u64))
                .will_execute_raw(injectorpp::func!(fn (cal_fake)() -> u64));
        });
        pages_during.extend(crate::maps::anon_exec_pages());
        during = std::panic::catch_unwind(cal_target).unwrap_or(0);
        // a libc function faked by a function of the executable: far apart
        let _ = std::panic::catch_unwind(std::panic::AssertUnwindSafe(|| {
            ip::sut(|| unsafe {
                inj.when_called_unchecked(injectorpp::func_unchecked!(libc::isblank)).will_execute_raw_unchecked(injectorpp::func_unchecked!(cal_fake_l));
            })
        }));
        pages_during.extend(crate::maps::anon_exec_pages());
        ip::sut(|| drop(inj));
    }
    let after = before;
    let log = ip::log_take();
    let saw = |k: ip::Kind| log.iter().any(|e| e.kind == k);
    // an implementation is free not to map anything; what must not happen is that it maps
    // executable memory without the interposer seeing the call
    let mapped_unseen = !saw(ip::Kind::Mmap) && pages_during.iter().any(|p| !pages0.contains(p));
    // how does this kernel treat an unaligned hint?
    let probe = unsafe { ip::sys_mmap(0x3333_0000_0800, 4096, libc::PROT_READ, libc::MAP_PRIVATE | libc::MAP_ANONYMOUS, -1, 0) };
    let rounding = if probe == 0x3333_0000_0000 { "down" } else if probe == 0x3333_0000_1000 { "up" } else { "elsewhere" };
    if probe != ip::MAP_FAILED {
        unsafe { ip::sys_munmap(probe, 4096) };
    }
    json!({
        "works": before == 102 && during == 1003 && after == 102,
        "note": "`works` is informational; only the saw_* fields gate the checks",
        "saw_mmap": !mapped_unseen, "mmap_calls_logged": log.iter().filter(|e| e.kind == ip::Kind::Mmap).count(), "saw_munmap": saw(ip::Kind::Munmap),
        "saw_mprotect": saw(ip::Kind::Mprotect), "saw_flush": saw(ip::Kind::Flush),
        "hint_rounding": rounding,
        "aslr_off": std::env::var("VNATIVE_NOASLR").ok(),
        "text": crate::place::text_range(),
    })
}

#[inline(never)]
fn cal_target() -> u64 {
    std::hint::black_box(102)
}
#[inline(never)]
unsafe extern "C" fn cal_fake_l(_x: libc::c_int) -> libc::c_int {
    std::hint::black_box(1004)
}
#[inline(never)]
fn cal_fake() -> u64 {
    std::hint::black_box(1003)
}

pub fn main() -> i32 {
    disable_aslr_and_reexec();
    install_panic_hook();
    let stdin = std::io::stdin();
    pristine_init();
    let _ = crate::place::text_range();
    let cal = calibrate();
    {
        let out = std::io::stdout();
        let mut l = out.lock();
        let _ = writeln!(l, "{}", json!({"hello": cal}));
        let _ = l.flush();
    }
    for line in stdin.lock().lines() {
        let Ok(line) = line else { break };
        if line.trim().is_empty() {
            continue;
        }
        let req: Value = match serde_json::from_str(&line) {
            Ok(v) => v,
            Err(e) => {
                println!("{}", json!({"harness_error": format!("bad request: {e}")}));
                continue;
            }
        };
        let resp = crate::dispatch(&req);
        let out = std::io::stdout();
        let mut l = out.lock();
        let _ = writeln!(l, "{}", resp);
        let _ = l.flush();
        taint_check();
        if TAINT.load(SeqCst) {
            // a real target was left modified: this process is not fit for another case
            return 77;
        }
    }
    0
}
