//! Native placement cases (C01; also the placement half of C17): one installation on one
//! target at a generated address, with the trampoline page dictated through the interposer and
//! the fake placed at a generated displacement from the trampoline.

use crate::arena::{Arena, PAGE};
use crate::interpose as ip;
use crate::mem::ProcMem;
use crate::targets::{self, Class, Kind};
use injectorpp::interface::injector::*;
use proptest::prelude::*;
use serde::{Deserialize, Serialize};
use std::sync::atomic::Ordering::SeqCst;
use vcommon::decoders::{x86_follow, X86End};

#[derive(Serialize, Deserialize, Clone, Debug, Hash, PartialEq, Eq)]
pub enum TargetSel {
    Real(u8),
    /// the `poll` of a real async function, faked with will_return_async (kernel-chosen trampoline)
    RealAsync(u8),
    /// synthetic `mov eax,id; ret` at (class range base + page*4096 + off)
    Synth { class: u8, page: u64, off: u16, boolean: bool },
}

#[derive(Serialize, Deserialize, Clone, Debug, Hash, PartialEq, Eq)]
pub enum TrampSel {
    /// let the kernel answer the library's hints
    Kernel,
    /// only the page floor(target)+pages*4096 is granted
    Pages(i32),
}

#[derive(Serialize, Deserialize, Clone, Debug, Hash, PartialEq, Eq)]
pub enum FakeSel {
    Rust { kind: Kind, k: u8 },
    /// synthetic fake at trampoline+5+d (needs TrampSel::Pages); api 0 = will_execute_raw,
    /// 1 = unchecked, 2 = will_execute with a dummy verifier
    Synth { d: i64, api: u8 },
    /// synthetic fake at an absolute generated address (class range + page + offset), e.g. in the
    /// upper half of the low 4 GiB
    SynthAbs { class: u8, page: u64, off: u16, api: u8 },
}

#[derive(Serialize, Deserialize, Clone, Debug, Hash, PartialEq, Eq)]
pub struct PlaceCase {
    pub target: TargetSel,
    pub tramp: TrampSel,
    pub fake: FakeSel,
    pub callers: u8,
    /// installations made on the same function through the same injector *before* the one under
    /// test (kernel-placed trampolines): the one under test is then a re-fake, and the property
    /// speaks about it because it is the fake that is installed
    #[serde(default)]
    pub prior: Vec<(Kind, u8)>,
    /// also call the function when the library flushes the entry it has just patched (the
    /// earliest moment a caller on another thread can meet the new code); only without earlier
    /// installations
    #[serde(default)]
    pub early: bool,
    /// synthetic targets: first fake another function that lives in the same page (same
    /// injector, default placement), then install the fake under test
    #[serde(default)]
    pub sibling_first: bool,
    /// k > 0: the k-th `mprotect` the library makes during the installation under test fails
    /// (EACCES-like): the installation may refuse (panic, function untouched) or cope, but a fake
    /// that it reports as installed must be reached
    #[serde(default)]
    pub mprotect_fail_at: u8,
    /// the whole case runs from tear-down code executed while the thread unwinds from a failed
    /// test body (`std::thread::panicking()` is true throughout)
    #[serde(default)]
    pub in_teardown: bool,
}

#[derive(Serialize, Deserialize, Clone, Debug, Default)]
pub struct LogEv {
    pub k: u8,
    pub a0: u64,
    pub a1: u64,
    pub a2: u64,
    pub ret: u64,
    pub seq: u64,
    pub bytes: Vec<u8>,
}

/// The interposer's events as they go into an observation.  A long allocation search produces two
/// events per rejected candidate (mmap answered elsewhere, munmap of that block); beyond the first
/// 100 such *pairs* (and the first 100 failed mmaps) a pair is left out as a whole, so that what
/// remains is still a consistent history (every mapping that is kept or released later is there,
/// and so is every mprotect and every flush).
pub fn log_events(evs: &[ip::Ev]) -> Vec<LogEv> {
    let mut skip = vec![false; evs.len()];
    if evs.len() > 400 {
        let mut open: std::collections::HashMap<u64, usize> = Default::default();
        let (mut pairs, mut failed) = (0usize, 0usize);
        for (i, e) in evs.iter().enumerate() {
            match e.kind {
                ip::Kind::Mmap if e.ret == ip::MAP_FAILED as u64 => {
                    failed += 1;
                    if failed > 100 {
                        skip[i] = true;
                    }
                }
                ip::Kind::Mmap => {
                    open.insert(e.ret, i);
                }
                ip::Kind::Munmap => {
                    if let Some(j) = open.remove(&e.a0) {
                        pairs += 1;
                        if pairs > 100 && e.ret == 0 {
                            skip[i] = true;
                            skip[j] = true;
                        }
                    }
                }
                _ => {}
            }
        }
    }
    evs.iter().zip(&skip).filter(|(_, s)| !**s).take(20_000).map(|(e, _)| LogEv { k: e.kind as u8, a0: e.a0, a1: e.a1, a2: e.a2, ret: e.ret, seq: e.seq, bytes: e.bytes.clone() }).collect()
}

#[derive(Serialize, Deserialize, Clone, Debug, Default)]
pub struct PlaceObs {
    pub status: String,
    pub why: String,
    pub target_addr: u64,
    pub tramp_page: Option<u64>,
    pub fake_addr: Option<u64>,
    pub expected_value: u64,
    pub expected_dest: Option<u64>,
    pub orig_value: u64,
    pub pre: Vec<u8>,
    pub during: Vec<u8>,
    pub post: Vec<u8>,
    pub decode_end: String,
    pub decode_hops: Vec<u64>,
    pub decode_trace: Vec<String>,
    pub arrived: Option<u64>,
    pub ret_rax: Option<u64>,
    pub executed: bool,
    pub calls: Vec<u64>,
    pub after_drop_value: Option<u64>,
    pub orig_runs_during: u64,
    pub panic: Option<String>,
    pub log: Vec<LogEv>,
    pub mmap_calls: u64,
    #[serde(default)]
    pub priors: u8,
    #[serde(default)]
    pub sibling_faked: bool,
    /// (value the sibling's fake yields, value a call of the sibling returned after the
    /// installation under test)
    #[serde(default)]
    pub sibling_after: Option<(u64, u64)>,
    /// the pages of the target were made read+execute again between the earlier installations
    /// and the installation under test
    #[serde(default)]
    pub resealed: bool,
    #[serde(default)]
    pub mprotect_fault_hit: bool,
    /// value returned to the call made from the flush hook (None = no such call was made)
    #[serde(default)]
    pub early_value: Option<u64>,
    pub text: (u64, u64),
    pub straddles: bool,
}

pub const CLASS_RANGES: [(u64, u64, &str); 5] = [
    (0x0001_0000, 0x0800_0000, "below-128MiB"),
    (0x0800_0000, 0x1_0000_0000, "low-4GiB"),
    (0x5554_0000_0000, 0x5557_0000_0000, "near-image"),
    (0x7FFF_0000_0000, 0x7FFF_F000_0000, "near-libs"),
    (0x0100_0000_0000, 0x5000_0000_0000, "mid"),
];

pub fn synth_base(class: u8, page: u64) -> u64 {
    let (lo, hi, _) = CLASS_RANGES[class as usize % CLASS_RANGES.len()];
    let pages = (hi - lo) / PAGE as u64;
    lo + (page % pages) * PAGE as u64
}

/// [lo, hi) of this executable's text, measured once before anything is patched (mprotect
/// splits the VMA later, so it must not be re-derived from /proc/self/maps afterwards).
pub fn text_range() -> (u64, u64) {
    static R: std::sync::OnceLock<(u64, u64)> = std::sync::OnceLock::new();
    *R.get_or_init(|| {
        let me = text_range as fn() -> (u64, u64) as usize as u64;
        for (lo, hi, _) in crate::maps::exec_ranges() {
            if me >= lo && me < hi {
                return (lo, hi);
            }
        }
        (0, 0)
    })
}

const FAKE_ID: u32 = 0x00FA_CE01;

fn execute_async(which: u8, callers: u8) -> PlaceObs {
    use crate::asyncs::{a_u32, a_u64_ref, poll_addr, run};
    let mut o = PlaceObs { text: text_range(), ..Default::default() };
    let r0 = 5u64;
    let addr = if which % 2 == 0 { poll_addr(&a_u32(0)) } else { poll_addr(&a_u64_ref(&r0)) };
    o.target_addr = addr as u64;
    o.pre = crate::mem::read_direct(addr, 32);
    o.orig_value = if which % 2 == 0 { 8 } else { 8 };
    crate::worker::phase("install");
    let res = std::panic::catch_unwind(|| {
        ip::sut(|| {
            let mut inj = InjectorPP::new();
            if which % 2 == 0 {
                inj.when_called_async(injectorpp::async_func!(a_u32(0), u32)).will_return_async(injectorpp::async_return!(4242u32, u32));
            } else {
                let r = 0u64;
                inj.when_called_async(injectorpp::async_func!(a_u64_ref(&r), u64)).will_return_async(injectorpp::async_return!(4242u64, u64));
            }
            inj
        })
    });
    o.during = crate::mem::read_direct(addr, 32);
    let inj = match res {
        Ok(i) => i,
        Err(_) => {
            o.status = "refused".into();
            o.panic = Some(crate::worker::last_panic());
            return o;
        }
    };
    o.status = "installed".into();
    o.expected_value = 4242;
    let m = ProcMem::new();
    let mut out = x86_follow(&m, addr as u64, &[], 6);
    if let Some(h) = out.hops.iter().find(|h| **h >= o.text.0 && **h < o.text.1) {
        out.end = X86End::Arrived { at: *h };
    }
    o.decode_end = format!("{:?}", out.end);
    o.decode_hops = out.hops.clone();
    o.decode_trace = out.trace.clone();
    if let X86End::Arrived { at } = out.end {
        o.arrived = Some(at);
        crate::worker::phase("call");
        o.executed = true;
        let one = move || -> u64 {
            if which % 2 == 0 { run(a_u32(7)).0 as u64 } else { let r = 5u64; run(a_u64_ref(&r)).0 }
        };
        o.calls.push(one());
        let n = callers.min(4) as usize;
        if n > 0 {
            let vals: Vec<u64> = std::thread::scope(|s| (0..n).map(|_| s.spawn(one)).collect::<Vec<_>>().into_iter().map(|h| h.join().unwrap_or(u64::MAX)).collect());
            o.calls.extend(vals);
        }
    }
    crate::worker::phase("drop");
    let _ = std::panic::catch_unwind(std::panic::AssertUnwindSafe(|| ip::sut(|| drop(inj))));
    o.post = crate::mem::read_direct(addr, 32);
    if o.post == o.pre {
        o.after_drop_value = Some(if which % 2 == 0 { run(a_u32(7)).0 as u64 } else { let r = 5u64; run(a_u64_ref(&r)).0 });
    }
    o.log = log_events(&ip::log_take());
    o
}

/// Worker side.
pub fn execute(c: &PlaceCase) -> PlaceObs {
    if c.in_teardown {
        crate::worker::while_unwinding(|| execute_inner(c))
    } else {
        execute_inner(c)
    }
}

fn execute_inner(c: &PlaceCase) -> PlaceObs {
    let mut o = PlaceObs { text: text_range(), ..Default::default() };
    ip::plan_reset();
    ip::log_clear();
    if let (TargetSel::RealAsync(k), FakeSel::Rust { .. }) = (&c.target, &c.fake) {
        return execute_async(*k, c.callers);
    }
    let reals = targets::real_targets();
    // ---- target
    let mut _target_arena: Option<Arena> = None;
    let mut sibling: Option<usize> = None;
    let mut sibling_expect: Option<u64> = None;
    let target = match &c.target {
        TargetSel::RealAsync(k) => {
            // (with a synthetic fake: the poll function of an async fn, dictated placements)
            let mut v = targets::async_targets();
            let i = *k as usize % v.len();
            v.swap_remove(i)
        }
        TargetSel::Real(i) => {
            let mut r = reals;
            let i = *i as usize % r.len();
            r.swap_remove(i)
        }
        TargetSel::Synth { class, page, off, boolean } => {
            let base = synth_base(*class, *page) as usize;
            let Some(a) = Arena::map(base, 2 * PAGE) else {
                o.status = "discarded".into();
                o.why = format!("target arena {base:#x} not mappable");
                return o;
            };
            let addr = base + (*off as usize % PAGE);
            let id = if *boolean { 0 } else { 0x7A00 + (*off as u32 & 0xFF) };
            // neighbours at 16-byte pitch on both sides (never called here; C03 checks them)
            for k in 1..=2usize {
                if addr >= base + 16 * k {
                    a.put_ret_id(addr - 16 * k, 0x6000 + k as u32);
                }
                a.put_ret_id(addr + 16 * k, 0x6100 + k as u32);
            }
            a.put_ret_id(addr, id);
            if c.sibling_first && ((*off as usize % PAGE) >= 0x200 || addr == base) {
                // (a page-aligned target has its sibling above it, any other one below)
                a.put_ret_id(base + 0x100, 0x6200);
                sibling = Some(base + 0x100);
            }
            a.seal();
            _target_arena = Some(a);
            targets::synthetic_target(addr, if *boolean { Class::B } else { Class::U }, id as u64, format!("synth@{addr:#x}"))
        }
    };
    o.target_addr = target.addr as u64;
    o.orig_value = target.orig;
    o.straddles = (target.addr & 0xFFF) > 0xFFB;
    o.pre = crate::worker::pristine_of(target.addr).unwrap_or_else(|| crate::mem::read_bytes(target.addr, 32));
    // ---- trampoline placement
    let tpage = match c.tramp {
        TrampSel::Kernel => None,
        TrampSel::Pages(p) => {
            let t = (target.addr & !0xFFF) as i64 + (p as i64) * PAGE as i64;
            if t < 0x10000 {
                o.status = "discarded".into();
                o.why = "dictated trampoline page below mmap_min_addr".into();
                return o;
            }
            Some(t as u64)
        }
    };
    o.tramp_page = tpage;
    // ---- fake
    let mut _fake_arena: Option<Arena> = None;
    let mut synth_fake: Option<usize> = None;
    let abs_fake = if let FakeSel::SynthAbs { class, page, off, .. } = &c.fake { Some(synth_base(*class, *page) as i64 + (*off as i64 % 0xFF0)) } else { None };
    if matches!(&c.fake, FakeSel::Synth { .. } | FakeSel::SynthAbs { .. }) {
        let fa = match (&c.fake, tpage, abs_fake) {
            (_, _, Some(a)) => a,
            (FakeSel::Synth { d, .. }, Some(tp), _) => (tp as i64).wrapping_add(5).wrapping_add(*d),
            _ => {
                o.status = "discarded".into();
                o.why = "synthetic fake needs a dictated trampoline".into();
                return o;
            }
        };
        if fa < 0x10000 || fa > 0x7FFF_FFFF_0000 {
            o.status = "discarded".into();
            o.why = format!("fake address {fa:#x} outside user space");
            return o;
        }
        let fa = fa as usize;
        let base = fa & !0xFFF;
        // (one page is enough when the fake's code ends inside it: a fake in the page right below
        // the trampoline must not claim the trampoline's page)
        let pages = if fa + 32 <= base + PAGE { 1 } else { 2 };
        let Some(a) = Arena::map(base, pages * PAGE) else {
            o.status = "discarded".into();
            o.why = format!("fake arena {base:#x} not mappable");
            return o;
        };
        if target.class == Class::B {
            // a bool-returning fake: mov eax,1; ret
            a.put_ret_id(fa, 1);
        } else if target.class == Class::A {
            // a poll function that is Ready(4242) at once: `mov rax, ..; mov rdx, ..; ret` with the
            // register image of the value as this compiler lays it out (both the one-register
            // and the two-register return of a small Poll<T> are satisfied)
            let (rax, rdx): (u64, u64) = if target.orig == 607 {
                let img: u64 = unsafe { std::mem::transmute(std::task::Poll::Ready(4242u32)) };
                (img, 4242)
            } else {
                let img: [u64; 2] = unsafe { std::mem::transmute(std::task::Poll::Ready(4242u64)) };
                (img[0], img[1])
            };
            let mut code = vec![0x48u8, 0xB8];
            code.extend_from_slice(&rax.to_le_bytes());
            code.extend_from_slice(&[0x48, 0xBA]);
            code.extend_from_slice(&rdx.to_le_bytes());
            code.push(0xC3);
            a.put(fa, &code);
        } else {
            a.put_ret_id(fa, FAKE_ID);
        }
        a.seal();
        _fake_arena = Some(a);
        synth_fake = Some(fa);
        o.fake_addr = Some(fa as u64);
    }
    // ---- earlier installations on the same function (default placement)
    crate::worker::phase("prior");
    let mut inj = ip::sut(InjectorPP::new);
    if let Some(sib) = sibling {
        let t2 = targets::synthetic_target(sib, Class::U, 0x6200, "sibling".into());
        let r = std::panic::catch_unwind(std::panic::AssertUnwindSafe(|| ip::sut(|| targets::install(&mut inj, &t2, Kind::Raw, 1))));
        let Ok(inst) = r else {
            o.status = "discarded".into();
            o.why = format!("the installation on the sibling was refused: {}", crate::worker::last_panic());
            let _ = std::panic::catch_unwind(std::panic::AssertUnwindSafe(|| ip::sut(|| drop(inj))));
            return o;
        };
        sibling_expect = Some(inst.value);
        o.sibling_faked = true;
    }
    for (kind, k) in c.prior.iter().take(4) {
        let kinds = targets::legal_kinds(target.class);
        let kind = if kinds.contains(kind) { *kind } else { kinds[*k as usize % kinds.len()] };
        let r = std::panic::catch_unwind(std::panic::AssertUnwindSafe(|| ip::sut(|| targets::install(&mut inj, &target, kind, *k as usize))));
        if r.is_err() {
            // an earlier installation refused: not what this case is about
            o.status = "discarded".into();
            o.why = format!("an earlier installation was refused: {}", crate::worker::last_panic());
            let _ = std::panic::catch_unwind(std::panic::AssertUnwindSafe(|| ip::sut(|| drop(inj))));
            return o;
        }
        o.priors += 1;
    }
    if let Some(tp) = tpage {
        ip::GRANT_PAGE.store(tp, SeqCst);
        ip::MODE.store(ip::MODE_GRANT_ONLY, SeqCst);
    }
    // ---- install
    crate::worker::phase("install");
    // the owner of a synthetic target's pages makes them read+execute again after the earlier
    // installations (what a code generator does when it has finished emitting): whatever the
    // injector believes about those pages from before is no longer true
    if let TargetSel::Synth { page, .. } = &c.target {
        if (o.sibling_faked || !c.prior.is_empty()) && (page >> 58) % 2 == 0 {
            let base = target.addr & !0xFFF;
            unsafe { ip::sys_mprotect(base, PAGE, libc::PROT_READ | libc::PROT_EXEC) };
            if (target.addr + 31) & !0xFFF != base {
                unsafe { ip::sys_mprotect(base + PAGE, PAGE, libc::PROT_READ | libc::PROT_EXEC) };
            }
            o.resealed = true;
        }
    }
    if c.mprotect_fail_at > 0 {
        ip::MPROTECT_FAIL_AT.store(ip::MPROTECT_CALLS.load(SeqCst) + c.mprotect_fail_at as i64, SeqCst);
    }
    let orig_runs0 = targets::ORIG_RUNS.load(SeqCst);
    let early_val: std::rc::Rc<std::cell::Cell<Option<u64>>> = Default::default();
    if c.early && c.prior.is_empty() {
        let ev = early_val.clone();
        let (addr, class) = (target.addr, target.class);
        ip::set_flush_hook(target.addr, Box::new(move || {
            crate::worker::phase("call-during-install");
            let v = std::panic::catch_unwind(|| unsafe {
                match class {
                    Class::B => (std::mem::transmute::<usize, fn() -> bool>(addr))() as u64,
                    Class::U => (std::mem::transmute::<usize, fn() -> u64>(addr))(),
                    Class::L => (std::mem::transmute::<usize, unsafe extern "C" fn(libc::c_long) -> libc::c_long>(addr))(-5) as u64,
                    Class::M => {
                        static W: targets::Widget = targets::Widget { v: 7 };
                        (std::mem::transmute::<usize, fn(&targets::Widget) -> u64>(addr))(&W)
                    }
                    Class::A => u64::MAX,
                }
            });
            ev.set(Some(v.unwrap_or(u64::MAX - 1)));
            crate::worker::phase("install");
        }));
    }
    // (the injector lives outside the closure: a refused installation must not drop it - and
    // restore the earlier installations - while the fault plan of this installation is armed)
    let mut inj_slot = Some(inj);
    let res = std::panic::catch_unwind(std::panic::AssertUnwindSafe(|| {
        ip::sut(|| {
            let inj = inj_slot.as_mut().unwrap();
            let inst = match &c.fake {
                FakeSel::Rust { kind, k } => {
                    let kinds = targets::legal_kinds(target.class);
                    let kind = if kinds.contains(kind) { *kind } else { kinds[*k as usize % kinds.len()] };
                    targets::install(inj, &target, kind, *k as usize)
                }
                FakeSel::Synth { api, .. } | FakeSel::SynthAbs { api, .. } if target.class == Class::A => {
                    let fa = synth_fake.unwrap();
                    unsafe {
                        if target.orig == 607 {
                            let sig = std::any::type_name::<fn() -> std::task::Poll<u32>>();
                            if api % 2 == 0 {
                                inj.when_called_async(injectorpp::async_func!(targets::t_a0(0), u32)).will_return_async(FuncPtr::new(fa as *const (), sig));
                            } else {
                                inj.when_called_async_unchecked(injectorpp::async_func_unchecked!(targets::t_a0(0))).will_return_async_unchecked(FuncPtr::new(fa as *const (), ""));
                            }
                        } else {
                            let sig = std::any::type_name::<fn() -> std::task::Poll<u64>>();
                            if api % 2 == 0 {
                                inj.when_called_async(injectorpp::async_func!(targets::t_a1(0), u64)).will_return_async(FuncPtr::new(fa as *const (), sig));
                            } else {
                                inj.when_called_async_unchecked(injectorpp::async_func_unchecked!(targets::t_a1(0))).will_return_async_unchecked(FuncPtr::new(fa as *const (), ""));
                            }
                        }
                    }
                    targets::Installed { value: 4242, dest: Some(fa) }
                }
                FakeSel::Synth { api, .. } | FakeSel::SynthAbs { api, .. } => {
                    let fa = synth_fake.unwrap();
                    let sig: &'static str = if target.class == Class::B { targets::SIG_B } else { targets::SIG_U };
                    unsafe {
                        match api % 3 {
                            0 => inj.when_called(FuncPtr::new(target.addr as *const (), sig)).will_execute_raw(FuncPtr::new(fa as *const (), sig)),
                            1 => inj.when_called_unchecked(FuncPtr::new(target.addr as *const (), "")).will_execute_raw_unchecked(FuncPtr::new(fa as *const (), "")),
                            _ => inj.when_called(FuncPtr::new(target.addr as *const (), sig)).will_execute((FuncPtr::new(fa as *const (), sig), CallCountVerifier::Dummy)),
                        }
                    }
                    targets::Installed { value: if target.class == Class::B { 1 } else { FAKE_ID as u64 }, dest: Some(fa) }
                }
            };
            inst
        })
    }));
    ip::MODE.store(ip::MODE_PASS, SeqCst);
    ip::MPROTECT_FAIL_AT.store(0, SeqCst);
    let res = match res {
        Ok(inst) => Ok((inj_slot.take().unwrap(), inst)),
        Err(e) => {
            // refused: the injector goes away now, with no fault armed
            let _ = std::panic::catch_unwind(std::panic::AssertUnwindSafe(|| ip::sut(|| drop(inj_slot.take()))));
            Err(e)
        }
    };
    o.mprotect_fault_hit = ip::MPROTECT_FAILS.load(SeqCst) > 0;
    ip::clear_flush_hook();
    o.early_value = early_val.get();
    o.mmap_calls = ip::MMAP_CALLS.load(SeqCst);
    o.during = crate::mem::read_bytes(target.addr, 32);
    let (inj, inst) = match res {
        Err(_) => {
            o.status = "refused".into();
            o.panic = Some(crate::worker::last_panic());
            o.log = log_events(&ip::log_take());
            return o;
        }
        Ok(x) => x,
    };
    o.status = "installed".into();
    o.expected_value = inst.value;
    o.expected_dest = inst.dest.map(|d| d as u64);
    // ---- decode before executing anything
    let m = ProcMem::new();
    let stop: Vec<u64> = inst.dest.iter().map(|d| *d as u64).collect();
    let mut out = x86_follow(&m, target.addr as u64, &stop, 6);
    // closures / fake! bodies: no nameable address -- stop as soon as control is inside this
    // executable's text and outside the target itself
    if inst.dest.is_none() {
        if let Some(h) = out.hops.iter().find(|h| **h >= o.text.0 && **h < o.text.1) {
            out.end = X86End::Arrived { at: *h };
        }
    }
    o.decode_end = format!("{:?}", out.end);
    o.decode_hops = out.hops.clone();
    o.decode_trace = out.trace.clone();
    let safe_to_run = match &out.end {
        X86End::Arrived { at } => {
            o.arrived = Some(*at);
            true
        }
        X86End::Ret { rax, .. } => {
            o.ret_rax = *rax;
            rax.is_some()
        }
        _ => false,
    };
    // only execute when the decoded destination is the expected one (a wrong destination is a
    // verdict already; executing it would only risk the worker)
    let dest_ok = match (&out.end, inst.dest) {
        (X86End::Arrived { at }, Some(d)) => *at == d as u64,
        (X86End::Arrived { at }, None) => *at >= o.text.0 && *at < o.text.1,
        (X86End::Ret { .. }, _) => true,
        _ => false,
    };
    // Bytes the mini-decoder does not know are not a verdict by themselves (a tree may emit a
    // different, equally valid sequence): then the isolated worker simply executes the call and
    // the returned value (or the crash) decides.  A *decoded wrong destination* is never executed.
    let unknown = matches!(out.end, X86End::Unknown { .. } | X86End::HopLimit);
    if (safe_to_run && dest_ok) || unknown {
        crate::worker::phase(if unknown { "call-undecoded" } else { "call" });
        o.executed = true;
        o.calls.push((target.call)());
        let n = c.callers.min(4) as usize;
        if n > 0 {
            let addr = target.addr;
            let class = target.class;
            let orig = target.orig;
            let real_call: Option<&(dyn Fn() -> u64)> = None;
            let _ = real_call;
            let vals: Vec<u64> = std::thread::scope(|s| {
                let hs: Vec<_> = (0..n)
                    .map(|_| {
                        s.spawn(move || unsafe {
                            // call through a pointer from another thread
                            match class {
                                Class::B => (std::mem::transmute::<usize, fn() -> bool>(addr))() as u64,
                                Class::U => (std::mem::transmute::<usize, fn() -> u64>(addr))(),
                                Class::L => (std::mem::transmute::<usize, unsafe extern "C" fn(libc::c_long) -> libc::c_long>(addr))(-5) as u64,
                                Class::M => {
                                    static W: targets::Widget = targets::Widget { v: 7 };
                                    (std::mem::transmute::<usize, fn(&targets::Widget) -> u64>(addr))(&W)
                                }
                                Class::A => {
                                    if orig == 607 {
                                        crate::asyncs::run(targets::t_a0(7)).0 as u64
                                    } else {
                                        crate::asyncs::run(targets::t_a1(7)).0
                                    }
                                }
                            }
                        })
                    })
                    .collect();
                hs.into_iter().map(|h| h.join().unwrap_or(u64::MAX)).collect()
            });
            o.calls.extend(vals);
        }
    }
    o.orig_runs_during = targets::ORIG_RUNS.load(SeqCst) - orig_runs0;
    // ---- the sibling faked earlier must still reach its own fake
    if let (Some(sib), Some(want)) = (sibling, sibling_expect) {
        crate::worker::phase("call-sibling-faked-earlier");
        let got = unsafe { (std::mem::transmute::<usize, fn() -> u64>(sib))() };
        o.sibling_after = Some((want, got));
    }
    // ---- drop
    crate::worker::phase("drop");
    let dropped = std::panic::catch_unwind(std::panic::AssertUnwindSafe(|| ip::sut(|| drop(inj))));
    if dropped.is_err() {
        o.why = format!("drop panicked: {}", crate::worker::last_panic());
    }
    o.post = crate::mem::read_bytes(target.addr, 32);
    if o.post == o.pre {
        crate::worker::phase("call-after-drop");
        o.after_drop_value = Some((target.call)());
    }
    o.log = log_events(&ip::log_take());
    o
}

// ------------------------------------------------------------------------------------------------
// generator

fn kind_strategy() -> impl Strategy<Value = Kind> {
    prop_oneof![Just(Kind::Raw), Just(Kind::Closure), Just(Kind::FakeMacro), Just(Kind::Unchecked), Just(Kind::Bool(true)), Just(Kind::Bool(false))]
}

fn rel32_edge() -> impl Strategy<Value = i64> {
    (prop_oneof![Just(i32::MAX as i64), Just(i32::MIN as i64)], -4i64..=4).prop_map(|(e, k)| e + k)
}

pub fn strategy() -> impl Strategy<Value = PlaceCase> {
    strategy_sel(false)
}

/// `only_async`: every target is the poll function of an async fn (C14's share of the placements)
pub fn strategy_sel(only_async: bool) -> impl Strategy<Value = PlaceCase> {
    let off = prop_oneof![
        3 => 0u16..0x1000,
        4 => 0xFF0u16..=0xFFF,
        1 => (0u16..256).prop_map(|k| k * 16),
        1 => Just(0u16),
    ];
    let target = prop_oneof![
        2 => (0u8..9).prop_map(TargetSel::Real),
        if only_async { 1000 } else { 2 } => (0u8..2).prop_map(TargetSel::RealAsync),
        6 => (0u8..5, any::<u64>(), off, prop::bool::weighted(0.25)).prop_map(|(class, page, off, boolean)| TargetSel::Synth { class, page, off, boolean }),
    ];
    let tramp = prop_oneof![
        1 => Just(TrampSel::Kernel),
        3 => (-32768i32..=32768).prop_map(TrampSel::Pages),
        2 => prop_oneof![Just(-32768i32), Just(-32767), Just(32767), Just(32768), Just(0), Just(1), Just(-1), Just(2)].prop_map(TrampSel::Pages),
    ];
    let d = prop_oneof![
        2 => -(1i64 << 20)..(1i64 << 20),
        // (a fake within a signed byte of the trampoline's branch, mostly in the page below it)
        1 => -200i64..40,
        4 => rel32_edge(),
        2 => (31u32..46, any::<u64>(), any::<bool>()).prop_map(|(b, m, neg)| { let v = ((1u64 << b) | (m & ((1u64 << b) - 1))) as i64; if neg { -v } else { v } }),
        1 => -(1i64 << 31)..(1i64 << 31),
    ];
    let fake = prop_oneof![
        2 => (kind_strategy(), 0u8..4).prop_map(|(kind, k)| FakeSel::Rust { kind, k }),
        5 => (d, 0u8..3).prop_map(|(d, api)| FakeSel::Synth { d, api }),
        2 => (prop_oneof![3 => Just(1u8), 1 => 0u8..5], any::<u64>(), 0u16..0xFF0, 0u8..3).prop_map(|(class, page, off, api)| FakeSel::SynthAbs { class, page: if class == 1 { page | 0x40000 } else { page }, off, api }),
    ];
    let prior = prop_oneof![
        5 => Just(vec![]),
        2 => prop::collection::vec((kind_strategy(), 0u8..4), 1..=3),
        // the pattern "X, something else, X again": a re-fake equal to an earlier one
        1 => (kind_strategy(), kind_strategy(), 0u8..4).prop_map(|(a, b, k)| vec![(a, k), (b, k)]),
    ];
    (target, tramp, fake, prop_oneof![3 => Just(0u8), 1 => 1u8..=4], prior, prop::bool::weighted(0.2)).prop_map(|(target, tramp, fake, callers, prior, early)| {
        // a synthetic fake needs a dictated trampoline; real targets keep the kernel's choice
        let (tramp, fake) = match (&target, tramp, fake) {
            (TargetSel::RealAsync(_), _, FakeSel::Rust { .. }) => (TrampSel::Kernel, FakeSel::Rust { kind: Kind::Raw, k: 0 }),
            (TargetSel::RealAsync(_), TrampSel::Kernel, FakeSel::Synth { d, api }) => (TrampSel::Pages((d % 1000) as i32), FakeSel::Synth { d, api }),
            (TargetSel::RealAsync(_), t, f) => (t, f),
            (TargetSel::Real(_), _, FakeSel::Synth { .. }) => (TrampSel::Kernel, FakeSel::Rust { kind: Kind::Raw, k: 0 }),
            (TargetSel::Real(_), _, f @ FakeSel::SynthAbs { .. }) => (TrampSel::Kernel, f),
            (TargetSel::Real(_), _, f) => (TrampSel::Kernel, f),
            (_, TrampSel::Kernel, FakeSel::Synth { d, api }) => (TrampSel::Pages((d % 1000) as i32), FakeSel::Synth { d, api }),
            (_, t, f) => (t, f),
        };
        // "X, other, X": make the installation under test repeat the first earlier one
        let fake = match (&fake, prior.as_slice()) {
            (FakeSel::Rust { .. }, [(a, k), _]) if !matches!(target, TargetSel::RealAsync(_)) => FakeSel::Rust { kind: *a, k: *k },
            _ => fake,
        };
        let prior = if matches!(target, TargetSel::RealAsync(_)) { vec![] } else { prior };
        let early = early && prior.is_empty() && !matches!(target, TargetSel::RealAsync(_));
        // (derived from the case: a quarter of the synthetic targets get a faked sibling first)
        let sibling_first = matches!(&target, TargetSel::Synth { page, .. } if (page >> 44) % 4 == 0);
        // (derived from the case: one synthetic placement in eight meets a failing mprotect)
        let mprotect_fail_at = match &target {
            TargetSel::Synth { page, .. } if (page >> 50) % 8 == 0 => 1 + ((page >> 53) % 3) as u8,
            _ => 0,
        };
        PlaceCase { target, tramp, fake, callers, prior, early, sibling_first, mprotect_fail_at, in_teardown: false }
    })
    .prop_flat_map(|c| (Just(c), prop::bool::weighted(0.07)).prop_map(|(mut c, t)| {
        c.in_teardown = t;
        c
    }))
}
