//! Panic capture shared by the simulation engines: library panics raised inside a SUT section are
//! the "refused loudly" outcome and are recorded silently; harness panics are printed.

thread_local! {
    pub static IN_SUT: std::cell::Cell<bool> = const { std::cell::Cell::new(false) };
    static LAST_PANIC: std::cell::RefCell<String> = const { std::cell::RefCell::new(String::new()) };
}

pub fn quiet_panics() {
    std::panic::set_hook(Box::new(|info| {
        let msg = if let Some(s) = info.payload().downcast_ref::<&str>() {
            s.to_string()
        } else if let Some(s) = info.payload().downcast_ref::<String>() {
            s.clone()
        } else {
            "<non-string panic>".to_string()
        };
        let loc = info.location().map(|l| format!(" at {}:{}", l.file().rsplit('/').next().unwrap_or(""), l.line())).unwrap_or_default();
        if !IN_SUT.with(|f| f.get()) {
            eprintln!("vsim: harness panic: {msg}{loc}");
        }
        LAST_PANIC.with(|p| *p.borrow_mut() = format!("{msg}{loc}"));
    }));
}

pub fn last_panic() -> String {
    LAST_PANIC.with(|p| p.borrow().clone())
}

