//! Install histories (C02, C03, C12, C17): sequences of injector lifetimes, each a sequence of
//! installations and calls over a set of real and synthetic targets, ending by scope exit or by
//! unwinding.  One executor, several judges (each property reads a different part of the
//! observation).

use crate::arena::{Arena, PAGE};
use crate::interpose as ip;
use crate::maps::Snapshot;
use crate::mem::ProcMem;
use crate::place::{log_events, synth_base, text_range, LogEv};
use crate::targets::{self, Class, Kind, Target};
use injectorpp::interface::injector::*;
use proptest::prelude::*;
use serde::{Deserialize, Serialize};
use std::sync::atomic::Ordering::SeqCst;
use vcommon::decoders::{x86_follow, X86End};

#[derive(Serialize, Deserialize, Clone, Debug, Hash, PartialEq, Eq)]
pub struct SynthSpec {
    pub class: u8,
    pub page: u64,
    pub off: u16,
    pub boolean: bool,
    /// entry shape (see Arena::put_shaped): plain, jmp rel32 / jmp short forwarder, endbr64, indirect thunk
    #[serde(default)]
    pub shape: u8,
    /// byte offset 0..15 added to the slot address: targets (and their neighbours) that are not
    /// 16- or even 8-byte aligned, and entries in the very last bytes of a page
    #[serde(default)]
    pub fine: u8,
    /// Some(k): a second function in the same arena whose entry lies k+1 bytes before the end of
    /// the first page (k in 0..4): its entry patch straddles the page boundary, and the page it
    /// starts in is the one the main function lives in
    #[serde(default)]
    pub twin: Option<u8>,
}

#[derive(Serialize, Deserialize, Clone, Debug, Hash, PartialEq, Eq)]
pub enum Step {
    Install { t: u8, kind: Kind, k: u8 },
    Call { t: u8 },
    /// the owner of a synthetic target's code pages makes them read+execute again (what a code
    /// generator does after emitting): nothing the injector may rely on stays writable
    Reseal { t: u8 },
    /// somebody else maps executable code of their own on every page the injector has given back
    /// (unmapped) since this lifetime began: that memory was released, whoever maps there next
    /// owns it, and nothing the injector does later may touch it
    SquatReleased,
}

#[derive(Serialize, Deserialize, Clone, Debug, Hash, PartialEq, Eq)]
pub enum Exit {
    Normal,
    Unwind,
}

#[derive(Serialize, Deserialize, Clone, Debug, Hash, PartialEq, Eq)]
pub struct Lifetime {
    pub steps: Vec<Step>,
    pub exit: Exit,
    /// before this lifetime the harness rewrites the body of synthetic target number `.0`
    /// (JIT-style code changing at a reused address): "as before the injector existed" then
    /// refers to the new content
    #[serde(default)]
    pub rewrite: Option<(u8, u16)>,
    /// during this lifetime the platform refuses writable+executable protections (a W^X policy):
    /// an implementation may then refuse to install (panic) or find another way; whatever it
    /// writes is still subject to every property
    #[serde(default)]
    pub deny_wx: bool,
    /// before this lifetime the harness maps an executable page of its own on every address at
    /// which the previous lifetime had a trampoline (that memory was released: whoever maps there
    /// next owns it)
    #[serde(default)]
    pub squat: bool,
    /// k > 0: the k-th `munmap` the injector makes while it goes out of scope fails (the platform
    /// refuses to release that trampoline): every function must be restored all the same
    #[serde(default)]
    pub munmap_fault: u8,
    /// k > 0: just before the k-th `mmap` of this lifetime reaches the kernel, another part of the
    /// program maps the hinted page for itself: that page is not the injector's, whatever it
    /// believed a moment ago
    #[serde(default)]
    pub race_map: u8,
    /// k > 0: the k-th `mmap` of this lifetime fails with ENOMEM (the search goes on or the
    /// installation is refused; whatever was obtained before is released exactly once)
    #[serde(default)]
    pub mmap_fail: u8,
}

#[derive(Serialize, Deserialize, Clone, Debug, Hash, PartialEq, Eq)]
pub struct HistCase {
    pub synth: Vec<SynthSpec>,
    pub lifetimes: Vec<Lifetime>,
    /// repeat the whole list of lifetimes this many times (cycle counts for C12)
    pub repeat: u32,
    /// the whole history runs from tear-down code executed while the thread unwinds from a
    /// failed test body (`std::thread::panicking()` is true throughout): installation, redirection,
    /// restoration, release and flushing are promised all the same; only call-count verdicts at
    /// scope exit are not raised there
    #[serde(default)]
    pub in_teardown: bool,
}

#[derive(Serialize, Deserialize, Clone, Debug, Default)]
pub struct Opts {
    /// full executable-memory snapshots at every observation point (C03)
    pub snapshots: bool,
    /// keep per-step interposer logs and trampoline bytes (C12/C17)
    pub logs: bool,
    /// only keep aggregate observations for repeated cycles beyond this many lifetimes
    pub detail_limit: usize,
}

#[derive(Serialize, Deserialize, Clone, Debug, Default)]
pub struct TargetObs {
    pub name: String,
    pub addr: u64,
    pub orig: u64,
    pub class: String,
    pub synthetic: bool,
    pub pristine: Vec<u8>,
    pub last_slot: bool,
}

#[derive(Serialize, Deserialize, Clone, Debug, Default)]
pub struct DiffObs {
    pub changed: Vec<(u64, u8, u8)>,
    pub changed_total: u64,
    pub appeared: Vec<u64>,
    pub disappeared: Vec<u64>,
    pub snapshot_bytes: u64,
}

#[derive(Serialize, Deserialize, Clone, Debug, Default)]
pub struct StepObs {
    pub kind: String,
    pub t: usize,
    /// Install: what the fake returns / where control should land
    pub expected_value: u64,
    pub expected_dest: Option<u64>,
    pub panicked: Option<String>,
    pub before: Vec<u8>,
    pub after: Vec<u8>,
    /// Install: (address, first 32 bytes) of every mapping the library obtained and kept
    pub tramps: Vec<(u64, Vec<u8>)>,
    pub log: Vec<LogEv>,
    /// Call: decoded arrival / returned value
    pub decode_end: String,
    pub arrived: Option<u64>,
    pub ret_rax: Option<u64>,
    pub value: Option<u64>,
    pub diff: Option<DiffObs>,
    pub bystanders: Vec<(String, u64)>,
    /// Install: Some((site, n)) when the installed fake carries a call-count expectation
    #[serde(default)]
    pub times: Option<(u8, u8)>,
    /// Call: the call panicked (over-called fake)
    #[serde(default)]
    pub call_panic: Option<String>,
    /// SquatReleased: pages the harness mapped code of its own on
    #[serde(default)]
    pub squatted: Vec<u64>,
}

#[derive(Serialize, Deserialize, Clone, Debug, Default)]
pub struct LifeObs {
    /// (target index, new pristine bytes, new original value) if a synthetic target was rewritten
    /// before this lifetime
    #[serde(default)]
    pub rewritten: Option<(usize, Vec<u8>, u64)>,
    pub steps: Vec<StepObs>,
    /// memory-management calls made while the injector was being created
    #[serde(default)]
    pub new_log: Vec<LogEv>,
    pub exit: String,
    #[serde(default)]
    pub munmap_fault_hit: bool,
    /// pages somebody else mapped just before the injector asked for them: (page, still mapped,
    /// content intact) after the lifetime
    #[serde(default)]
    pub raced: Vec<(u64, bool, bool)>,
    /// blocks whose release failed at scope exit: (address, first 32 bytes as they are now)
    #[serde(default)]
    pub unreleased: Vec<(u64, Vec<u8>)>,
    /// (address, first 32 bytes) of every mapping the injector held right before scope exit
    #[serde(default)]
    pub held_before_exit: Vec<(u64, Vec<u8>)>,
    pub drop_panicked: Option<String>,
    pub drop_log: Vec<LogEv>,
    /// (target index, bytes now, value if it was safe to call)
    pub post: Vec<(usize, Vec<u8>, Option<u64>)>,
    pub anon_exec: Vec<u64>,
    pub diff_after_drop: Option<DiffObs>,
    pub diff_vs_first: Option<DiffObs>,
    /// executable pages the harness mapped before this lifetime on released trampoline addresses
    #[serde(default)]
    pub squat_pages: Vec<u64>,
    /// (address, length) of mprotect calls by which the library took PROT_EXEC away from memory
    /// that is not one of its own trampolines
    #[serde(default)]
    pub exec_removed: Vec<(u64, u64)>,
    pub bystanders: Vec<(String, u64)>,
    pub orig_runs: u64,
}

#[derive(Serialize, Deserialize, Clone, Debug, Default)]
pub struct HistObs {
    pub status: String,
    pub why: String,
    pub targets: Vec<TargetObs>,
    pub lifetimes: Vec<LifeObs>,
    pub anon_exec_before: Vec<u64>,
    pub anon_exec_after: Vec<u64>,
    pub text: (u64, u64),
    /// aggregate over all repeated cycles (incl. those without per-step detail)
    pub total_lifetimes: u64,
    pub total_installs: u64,
    pub agg_mmaps_kept: u64,
    pub agg_munmaps: u64,
    pub agg_bad_unmaps: u64,
    pub agg_not_pristine: u64,
    pub arena_pages: Vec<u64>,
}

fn diff_obs(a: &Snapshot, b: &Snapshot) -> DiffObs {
    let d = a.diff(b);
    DiffObs { changed_total: d.changed.len() as u64, changed: d.changed.into_iter().take(64).collect(), appeared: d.appeared.into_iter().take(64).collect(), disappeared: d.disappeared.into_iter().take(64).collect(), snapshot_bytes: b.total_bytes() }
}

fn call_bystanders() -> Vec<(String, u64)> {
    targets::bystanders().iter().map(|(n, f, _, _)| (n.to_string(), f())).collect()
}

/// decode first, then call; never executes a target whose entry does not decode to a known place
fn careful_call(t: &Target, expect_dest: Option<u64>, text: (u64, u64), pristine: &[u8], so: &mut StepObs) {
    let now = crate::mem::read_direct(t.addr, 32);
    if now == pristine {
        so.decode_end = "pristine".into();
        so.value = Some((t.call)());
        return;
    }
    let m = ProcMem::new();
    let stop: Vec<u64> = expect_dest.into_iter().collect();
    let mut out = x86_follow(&m, t.addr as u64, &stop, 6);
    if expect_dest.is_none() {
        if let Some(h) = out.hops.iter().find(|h| **h >= text.0 && **h < text.1) {
            out.end = X86End::Arrived { at: *h };
        }
    }
    so.decode_end = format!("{:?} via {:x?}", out.end, out.hops);
    match out.end {
        X86End::Arrived { at } => {
            so.arrived = Some(at);
            // run only if control lands in real code: this executable's text, libc, or an arena fake
            match std::panic::catch_unwind(std::panic::AssertUnwindSafe(|| (t.call)())) {
                Ok(v) => so.value = Some(v),
                Err(_) => so.call_panic = Some(crate::worker::last_panic()),
            }
        }
        X86End::Ret { rax, .. } => {
            so.ret_rax = rax;
            if rax.is_some() {
                so.value = Some((t.call)());
            }
        }
        X86End::Unknown { .. } | X86End::HopLimit => {
            // unknown bytes are not a verdict: the isolated worker executes and the value decides
            crate::worker::phase("call-undecoded");
            match std::panic::catch_unwind(std::panic::AssertUnwindSafe(|| (t.call)())) {
                Ok(v) => so.value = Some(v),
                Err(_) => so.call_panic = Some(crate::worker::last_panic()),
            }
        }
    }
}

pub fn execute(c: &HistCase, opts: &Opts) -> HistObs {
    if c.in_teardown {
        crate::worker::while_unwinding(|| execute_inner(c, opts))
    } else {
        execute_inner(c, opts)
    }
}

fn execute_inner(c: &HistCase, opts: &Opts) -> HistObs {
    let mut o = HistObs { text: text_range(), ..Default::default() };
    ip::plan_reset();
    ip::log_clear();
    // ---- targets
    let mut tg: Vec<Target> = targets::real_targets();
    tg.extend(targets::async_targets());
    let mut arenas: Vec<Arena> = vec![];
    let mut last_slot = vec![false; tg.len()];
    let mut twins: Vec<(usize, u32)> = vec![];
    for (i, s) in c.synth.iter().enumerate() {
        let base = synth_base(s.class, s.page) as usize;
        let Some(a) = Arena::map(base, 2 * PAGE) else {
            o.status = "discarded".into();
            o.why = format!("arena {base:#x} not mappable");
            return o;
        };
        // function slots at 16-byte pitch; the target is slot-aligned here so that both
        // neighbours at +/-16 are live functions (C03), incl. the last slot of the first page
        let off = ((s.off as usize % PAGE) & !0xF) + (s.fine as usize % 16);
        let addr = base + off;
        for k in 1..=3usize {
            if addr >= base + 16 * k {
                a.put_ret_id(addr - 16 * k, 0x6000 + (i as u32) * 16 + k as u32);
            }
            a.put_ret_id(addr + 16 * k, 0x6100 + (i as u32) * 16 + k as u32);
        }
        let id = if s.boolean { (i as u32) & 1 } else { 0x7A00 + i as u32 };
        // (the body of a forwarder lives at +48, i.e. in the slot of neighbour +3: a live,
        // never-named function whose bytes the snapshot diff watches)
        // shape 5: a function that counts its calls in a word of its own page, living in an arena
        // that stays writable and executable (JIT-style code): "behaves as before" after the
        // injector is gone includes that it can still write there
        let self_counting = s.shape == 5 && !s.boolean;
        if self_counting {
            let cpos = base + if off >= 0x800 { 0x100 } else { 0xF00 };
            let rel = (cpos as i64 - (addr as i64 + 6)) as i32;
            let mut code = vec![0xFFu8, 0x05];
            code.extend_from_slice(&rel.to_le_bytes());
            code.push(0xB8);
            code.extend_from_slice(&id.to_le_bytes());
            code.push(0xC3);
            a.put(addr, &code);
        } else if s.shape >= 6 {
            if !a.put_sled(addr, id, s.shape) {
                a.put_ret_id(addr, id);
            }
        } else {
            a.put_shaped(addr, id, s.shape);
        }
        // two fakes in the same arena (near the target): one at the very start of a page, one
        // unaligned; both are executable memory the injector does not own
        let f0 = if off >= 256 { base } else { base + PAGE };
        let f1 = if off >= 0x800 { base + 0x108 } else { base + PAGE + 0x808 };
        let (v0, v1) = if s.boolean { (1u64, 0u64) } else { (0x7F00 + 2 * i as u64, 0x7F01 + 2 * i as u64) };
        // (the page-aligned one sits at base+PAGE only when the target is in the first 256 bytes
        // of the arena, so it never overlaps the target's neighbourhood)
        let room = |f: usize| f + 16 <= addr.saturating_sub(48) || f >= addr + 48 + 64;
        let mut arena_fakes = vec![];
        if room(f0) && a.put_ret_id(f0, v0 as u32) {
            arena_fakes.push((f0, v0));
        }
        if room(f1) && a.put_ret_id(f1, v1 as u32) {
            arena_fakes.push((f1, v1));
        }
        if let Some(k) = s.twin {
            // (room: the main function's neighbourhood ends well before the page end, the
            // page-aligned arena fake sits at `base`)
            if off >= 256 && off + 128 < PAGE - 16 {
                let taddr = base + PAGE - 1 - (k as usize % 4);
                let tid = 0x7B00 + i as u32;
                if a.put_ret_id(taddr, tid) {
                    twins.push((taddr, tid));
                }
            }
        }
        if self_counting {
            unsafe { ip::sys_mprotect(base, 2 * PAGE, libc::PROT_READ | libc::PROT_WRITE | libc::PROT_EXEC) };
        } else {
            a.seal();
        }
        o.arena_pages.push(base as u64);
        o.arena_pages.push((base + PAGE) as u64);
        arenas.push(a);
        let mut t = targets::synthetic_target(addr, if s.boolean { Class::B } else { Class::U }, id as u64, format!("synth{i}@{addr:#x}"));
        t.arena_fakes = arena_fakes;
        tg.push(t);
        last_slot.push(off >= PAGE - 16);
    }
    let n_real = tg.len() - c.synth.len();
    for (taddr, tid) in &twins {
        tg.push(targets::synthetic_target(*taddr, Class::U, *tid as u64, format!("twin@{taddr:#x}")));
        last_slot.push(true);
    }
    let n = tg.len();
    let mut pristine: Vec<Vec<u8>> = tg.iter().map(|t| crate::worker::pristine_of(t.addr).unwrap_or_else(|| crate::mem::read_direct(t.addr, 32))).collect();
    for (i, t) in tg.iter().enumerate() {
        o.targets.push(TargetObs { name: t.name.clone(), addr: t.addr as u64, orig: t.orig, class: format!("{:?}", t.class), synthetic: t.synthetic, pristine: pristine[i].clone(), last_slot: last_slot[i] });
    }
    o.anon_exec_before = crate::maps::anon_exec_pages();
    let snap0 = if opts.snapshots { Some(Snapshot::take()) } else { None };
    let mut prev_snap = snap0.clone();
    let mut last_tramps: Vec<(u64, u64)> = vec![];
    let mut squats: Vec<u64> = vec![];
    let detail_limit = if opts.detail_limit == 0 { usize::MAX } else { opts.detail_limit };
    let mut life_no = 0usize;
    // neighbours of synthetic targets count as bystanders too
    let synth_neighbours: Vec<(usize, u32)> = vec![];
    let _ = synth_neighbours;
    'outer: for _rep in 0..c.repeat.max(1) {
        for life in &c.lifetimes {
            let detailed = life_no < detail_limit;
            life_no += 1;
            o.total_lifetimes += 1;
            let mut lo = LifeObs::default();
            if life.squat && detailed {
                // (lifetimes with an even number of steps leave every other released address free:
                // the next trampolines then land *between* foreign pages)
                let alternate = life.steps.len() % 2 == 0;
                // (and somebody else's code a few pages above every released address, whether that
                // address itself is taken or left free for the next trampoline)
                let mut wanted: Vec<usize> = vec![];
                for (idx, (a, _)) in last_tramps.iter().enumerate() {
                    let page = (*a & !0xFFF) as usize;
                    wanted.push(page + (1 + (idx * 7 + life_no) % 15) * PAGE);
                    if !(alternate && idx % 2 == 1) {
                        wanted.push(page);
                    }
                }
                for page in wanted {
                    if squats.contains(&(page as u64)) {
                        continue;
                    }
                    unsafe {
                        let p = ip::sys_mmap(page, PAGE, libc::PROT_READ | libc::PROT_WRITE, libc::MAP_PRIVATE | libc::MAP_ANONYMOUS | 0x100000, -1, 0);
                        if p == page {
                            // 256 little functions at 16-byte pitch (also for the companions)
                            for k in 0..256usize {
                                let mut code = [0xB8u8, 0, 0, 0, 0, 0xC3];
                                code[1..5].copy_from_slice(&(0x5C00 + k as u32).to_le_bytes());
                                std::ptr::copy_nonoverlapping(code.as_ptr(), (page + 16 * k) as *mut u8, 6);
                            }
                            ip::sys_mprotect(page, PAGE, libc::PROT_READ | libc::PROT_EXEC);
                            squats.push(page as u64);
                        } else if p != ip::MAP_FAILED {
                            ip::sys_munmap(p, PAGE);
                        }
                    }
                }
                lo.squat_pages = squats.clone();
                if opts.snapshots {
                    prev_snap = Some(Snapshot::take());
                }
            } else {
                lo.squat_pages = squats.clone();
            }
            if let Some((which, salt)) = life.rewrite {
                if !c.synth.is_empty() {
                    let si = which as usize % c.synth.len();
                    let ti = n_real + si;
                    // only plain `mov eax, id; ret` targets are rewritten (non-boolean, shape 0)
                    if c.synth[si].shape == 0 && !c.synth[si].boolean {
                        let addr = tg[ti].addr;
                        let new_id = 0x7C00 + (salt as u32 % 0x300);
                        unsafe {
                            ip::sys_mprotect(addr & !0xFFF, 2 * PAGE, libc::PROT_READ | libc::PROT_WRITE);
                            let mut code = [0xB8u8, 0, 0, 0, 0, 0xC3];
                            code[1..5].copy_from_slice(&new_id.to_le_bytes());
                            std::ptr::copy_nonoverlapping(code.as_ptr(), addr as *mut u8, 6);
                            ip::sys_mprotect(addr & !0xFFF, 2 * PAGE, libc::PROT_READ | libc::PROT_EXEC);
                        }
                        pristine[ti] = crate::mem::read_direct(addr, 32);
                        tg[ti].orig = new_id as u64;
                        lo.rewritten = Some((ti, pristine[ti].clone(), new_id as u64));
                    }
                }
            }
            ip::log_clear();
            let runs0 = targets::ORIG_RUNS.load(SeqCst);
            crate::worker::phase("new");
            ip::DENY_WX.store(life.deny_wx as u8, SeqCst);
            let mut inj = ip::sut(InjectorPP::new);
            // creating an injector maps and unmaps nothing
            let evs_new = ip::log_snapshot();
            for e in &evs_new {
                if e.kind == ip::Kind::Munmap {
                    o.agg_munmaps += 1;
                    o.agg_bad_unmaps += 1;
                }
            }
            if detailed && opts.logs {
                lo.new_log = log_events(&evs_new);
            }
            ip::RACE_MAP_IN.store(life.race_map as i64, SeqCst);
            ip::MMAP_FAIL_IN.store(life.mmap_fail as i64, SeqCst);
            // model state only for choosing the decode expectation of calls
            let mut top: Vec<Option<(u64, Option<u64>)>> = vec![None; n];
            let mut kept: Vec<(u64, u64)> = vec![]; // live trampolines (addr,len)
            let mut times_sites_used = [false; 4];
            for st in &life.steps {
                let mut so = StepObs::default();
                match st {
                    Step::Install { t, kind, k } => {
                        let ti = *t as usize % n;
                        let tgt = &tg[ti];
                        let kinds = targets::legal_kinds(tgt.class);
                        let mut kind = if kinds.contains(kind) || (tgt.class == Class::U && matches!(kind, Kind::Times(_))) || (!tgt.arena_fakes.is_empty() && matches!(kind, Kind::ArenaFake(_))) { *kind } else { kinds[*k as usize % kinds.len()] };
                        // one counted installation per call site and lifetime (the counter is a
                        // static of the site)
                        if let Kind::Times(n) = kind {
                            let site = (*k % 4) as usize;
                            if times_sites_used[site] {
                                kind = Kind::FakeMacro;
                            } else {
                                times_sites_used[site] = true;
                                so.times = Some((site as u8, n));
                            }
                        }
                        so.kind = format!("install/{}", match kind { Kind::Times(_) => "Times".to_string(), other => format!("{other:?}") });
                        so.t = ti;
                        so.before = crate::mem::read_direct(tgt.addr, 32);
                        crate::worker::phase("install");
                        let mark = ip::log_len();
                        let r = std::panic::catch_unwind(std::panic::AssertUnwindSafe(|| ip::sut(|| targets::install(&mut inj, tgt, kind, *k as usize))));
                        o.total_installs += 1;
                        let evs: Vec<ip::Ev> = ip::log_snapshot().into_iter().skip(mark).collect();
                        match r {
                            Ok(inst) => {
                                so.expected_value = inst.value;
                                so.expected_dest = inst.dest.map(|d| d as u64);
                                top[ti] = Some((inst.value, inst.dest.map(|d| d as u64)));
                            }
                            Err(_) => so.panicked = Some(crate::worker::last_panic()),
                        }
                        so.after = crate::mem::read_direct(tgt.addr, 32);
                        // mappings obtained and kept during this install
                        let mut got: Vec<(u64, u64)> = vec![];
                        for e in &evs {
                            match e.kind {
                                ip::Kind::Mmap if e.ret != ip::MAP_FAILED as u64 => got.push((e.ret, e.a1)),
                                ip::Kind::Munmap => got.retain(|g| g.0 != e.a0),
                                _ => {}
                            }
                        }
                        for g in &got {
                            so.tramps.push((g.0, crate::mem::read_direct(g.0 as usize, 32)));
                            kept.push(*g);
                            o.agg_mmaps_kept += 1;
                        }
                        if detailed && opts.logs {
                            so.log = log_events(&evs);
                        }
                    }
                    Step::Reseal { t } => {
                        let ti = *t as usize % n;
                        so.kind = "reseal".into();
                        so.t = ti;
                        let si = ti.wrapping_sub(n_real);
                        if ti >= n_real && si < c.synth.len() && c.synth[si].shape != 5 {
                            let base = tg[ti].addr & !0xFFF;
                            // (both pages of the arena; the first one is where the entry lives)
                            unsafe { ip::sys_mprotect(base, PAGE, libc::PROT_READ | libc::PROT_EXEC) };
                            unsafe { ip::sys_mprotect(base + PAGE, PAGE, libc::PROT_READ | libc::PROT_EXEC) };
                            so.kind = "reseal/done".into();
                        }
                    }
                    Step::SquatReleased => {
                        so.kind = "squat".into();
                        let mut pages: Vec<u64> = vec![];
                        for e in ip::log_snapshot() {
                            if e.kind == ip::Kind::Munmap && e.ret == 0 {
                                let mut p = e.a0 & !0xFFF;
                                while p < e.a0 + e.a1.max(1) && pages.len() < 8 {
                                    if !pages.contains(&p) && !squats.contains(&p) {
                                        pages.push(p);
                                    }
                                    p += 4096;
                                }
                            }
                        }
                        for page in pages {
                            let page = page as usize;
                            unsafe {
                                let p = ip::sys_mmap(page, PAGE, libc::PROT_READ | libc::PROT_WRITE, libc::MAP_PRIVATE | libc::MAP_ANONYMOUS | 0x100000, -1, 0);
                                if p == page {
                                    for k in 0..256usize {
                                        let mut code = [0xB8u8, 0, 0, 0, 0, 0xC3];
                                        code[1..5].copy_from_slice(&(0x5D00 + k as u32).to_le_bytes());
                                        std::ptr::copy_nonoverlapping(code.as_ptr(), (page + 16 * k) as *mut u8, 6);
                                    }
                                    ip::sys_mprotect(page, PAGE, libc::PROT_READ | libc::PROT_EXEC);
                                    squats.push(page as u64);
                                    so.squatted.push(page as u64);
                                    // (no longer a trampoline of this lifetime)
                                    kept.retain(|g| (g.0 & !0xFFF) as usize != page);
                                } else if p != ip::MAP_FAILED {
                                    ip::sys_munmap(p, PAGE);
                                }
                            }
                        }
                    }
                    Step::Call { t } => {
                        let ti = *t as usize % n;
                        so.kind = "call".into();
                        so.t = ti;
                        crate::worker::phase("call");
                        let exp = top[ti].and_then(|x| x.1);
                        careful_call(&tg[ti], exp, o.text, &pristine[ti], &mut so);
                    }
                }
                for (a, l) in ip::noexec_take() {
                    // (the injector's own trampolines are its own business)
                    if !kept.iter().any(|g| a >= (g.0 & !0xFFF) && a < (g.0 & !0xFFF) + 4096) {
                        lo.exec_removed.push((a, l));
                    }
                }
                if opts.snapshots && detailed {
                    let s = Snapshot::take();
                    if let Some(p) = &prev_snap {
                        so.diff = Some(diff_obs(p, &s));
                    }
                    prev_snap = Some(s);
                    so.bystanders = call_bystanders();
                }
                if detailed {
                    lo.steps.push(so);
                }
            }
            // ---- exit
            crate::worker::phase("drop");
            let mark = ip::log_len();
            if life.munmap_fault > 0 && detailed {
                for g in &kept {
                    if crate::maps::readable(g.0 as usize, 32) {
                        lo.held_before_exit.push((g.0, crate::mem::read_direct(g.0 as usize, 32)));
                    }
                }
            }
            ip::MUNMAP_FAIL_IN.store(life.munmap_fault as i64, SeqCst);
            match life.exit {
                Exit::Normal => {
                    lo.exit = "normal".into();
                    let r = std::panic::catch_unwind(std::panic::AssertUnwindSafe(|| ip::sut(|| drop(inj))));
                    if r.is_err() {
                        lo.drop_panicked = Some(crate::worker::last_panic());
                    }
                }
                Exit::Unwind => {
                    lo.exit = "unwind".into();
                    let before = crate::worker::PANIC_COUNT.load(SeqCst);
                    let r = std::panic::catch_unwind(std::panic::AssertUnwindSafe(move || {
                        ip::sut(move || {
                            let _scope = inj;
                            panic!("user panic at the end of the scope");
                        })
                    }));
                    let _ = r;
                    let extra = crate::worker::PANIC_COUNT.load(SeqCst) - before;
                    if extra != 1 {
                        lo.drop_panicked = Some(format!("{extra} panics raised while unwinding"));
                    }
                }
            }
            last_tramps = kept.clone();
            for (a, l) in ip::noexec_take() {
                if !kept.iter().any(|g| a >= (g.0 & !0xFFF) && a < (g.0 & !0xFFF) + 4096) {
                    lo.exec_removed.push((a, l));
                }
            }
            ip::MUNMAP_FAIL_IN.store(0, SeqCst);
            let failed: Vec<(u64, u64)> = ip::FAILED_UNMAPS.lock().map(|mut v| std::mem::take(&mut *v)).unwrap_or_default();
            lo.munmap_fault_hit = !failed.is_empty();
            for (a, l) in &failed {
                if crate::maps::readable(*a as usize, 32) {
                    lo.unreleased.push((*a, crate::mem::read_direct(*a as usize, 32)));
                }
                // (what the library could not release the harness releases, so that later
                // lifetimes see the address space they expect)
                unsafe { ip::sys_munmap(*a as usize, (*l as usize).max(1)) };
                kept.retain(|g| g.0 != *a);
            }
            let evs: Vec<ip::Ev> = ip::log_snapshot().into_iter().skip(mark).collect();
            for e in &evs {
                if e.kind == ip::Kind::Munmap {
                    o.agg_munmaps += 1;
                    let mut live: std::collections::BTreeMap<u64, u64> = kept.iter().copied().collect();
                    match crate::acct::release(&mut live, e.a0, e.a1) {
                        crate::acct::Release::Whole { .. } if e.ret == 0 => kept.retain(|g| live.contains_key(&g.0)),
                        _ => o.agg_bad_unmaps += 1,
                    }
                }
            }
            o.agg_bad_unmaps += kept.len() as u64; // never released
            if detailed && opts.logs {
                lo.drop_log = log_events(&evs);
            }
            ip::DENY_WX.store(0, SeqCst);
            ip::RACE_MAP_IN.store(0, SeqCst);
            ip::MMAP_FAIL_IN.store(0, SeqCst);
            let raced: Vec<u64> = ip::RACED.lock().map(|mut v| std::mem::take(&mut *v)).unwrap_or_default();
            for p in raced {
                let mapped = crate::maps::readable(p as usize, 8);
                let intact = mapped && unsafe { *(p as *const u64) } == ip::RACE_MAGIC;
                lo.raced.push((p, mapped, intact));
                if mapped {
                    unsafe { ip::sys_munmap(p as usize, PAGE) };
                }
            }
            crate::worker::phase("post");
            for (i, t) in tg.iter().enumerate() {
                let now = crate::mem::read_direct(t.addr, 32);
                let val = if now == pristine[i] { Some((t.call)()) } else { None };
                if now != pristine[i] {
                    o.agg_not_pristine += 1;
                }
                if detailed || now != pristine[i] {
                    lo.post.push((i, now, val));
                }
            }
            lo.orig_runs = targets::ORIG_RUNS.load(SeqCst) - runs0;
            if detailed {
                lo.anon_exec = crate::maps::anon_exec_pages();
                if opts.snapshots {
                    let s = Snapshot::take();
                    if let Some(p) = &prev_snap {
                        lo.diff_after_drop = Some(diff_obs(p, &s));
                    }
                    if let Some(f) = &snap0 {
                        lo.diff_vs_first = Some(diff_obs(f, &s));
                    }
                    prev_snap = Some(s);
                    lo.bystanders = call_bystanders();
                }
                o.lifetimes.push(lo);
            } else if !lo.post.is_empty() {
                o.lifetimes.push(lo);
                break 'outer;
            }
        }
    }
    for p in &squats {
        unsafe { ip::sys_munmap(*p as usize, PAGE) };
    }
    o.anon_exec_after = crate::maps::anon_exec_pages();
    o.status = "ran".into();
    drop(arenas);
    o
}

// ------------------------------------------------------------------------------------------------
// generator

fn kind_strategy() -> impl Strategy<Value = Kind> {
    prop_oneof![2 => Just(Kind::Raw), 2 => Just(Kind::Closure), 2 => Just(Kind::FakeMacro), 2 => Just(Kind::Unchecked), 1 => Just(Kind::Bool(true)), 1 => Just(Kind::Bool(false)), 3 => (0u8..3).prop_map(Kind::Times), 1 => Just(Kind::Async), 1 => Just(Kind::AsyncUnchecked), 3 => (0u8..6).prop_map(Kind::ArenaFake)]
}

pub fn strategy(max_lifetimes: usize, max_steps: usize, synth_bias_last_slot: bool) -> impl Strategy<Value = HistCase> {
    strategy_rw(max_lifetimes, max_steps, synth_bias_last_slot, false)
}

pub fn strategy_rw(max_lifetimes: usize, max_steps: usize, synth_bias_last_slot: bool, rewrites: bool) -> impl Strategy<Value = HistCase> {
    strategy_full(max_lifetimes, max_steps, synth_bias_last_slot, rewrites, 0.0)
}

/// `deny_wx`: probability that a lifetime runs under a W^X policy (only for judges that look at
/// what *was* written, not at whether an installation succeeded or what a refused one left mapped)
pub fn strategy_full(max_lifetimes: usize, max_steps: usize, synth_bias_last_slot: bool, rewrites: bool, deny_wx: f64) -> impl Strategy<Value = HistCase> {
    strategy_all(max_lifetimes, max_steps, synth_bias_last_slot, rewrites, deny_wx, 0.0)
}

/// `squat`: probability that the harness occupies the previous lifetime's trampoline addresses
/// before a lifetime (C03 only: the other judges count executable pages)
pub fn strategy_all(max_lifetimes: usize, max_steps: usize, synth_bias_last_slot: bool, rewrites: bool, deny_wx: f64, squat: f64) -> impl Strategy<Value = HistCase> {
    let off = if synth_bias_last_slot {
        prop_oneof![2 => 0u16..0x1000, 3 => Just(0xFF0u16), 1 => Just(0u16)].boxed()
    } else {
        prop_oneof![3 => 0u16..0x1000, 1 => Just(0xFF0u16)].boxed()
    };
    let shape = if rewrites {
        // (C02 only: the snapshot-based judges would see the counter word change)
        prop_oneof![3 => Just(0u8), 2 => Just(1u8), 1 => Just(2u8), 1 => Just(3u8), 1 => Just(4u8), 2 => Just(5u8), 1 => 6u8..=14].boxed()
    } else {
        prop_oneof![3 => Just(0u8), 2 => Just(1u8), 1 => Just(2u8), 1 => Just(3u8), 1 => Just(4u8), 1 => 6u8..=14].boxed()
    };
    let fine = prop_oneof![3 => Just(0u8), 2 => 1u8..16, 1 => 11u8..16];
    let synth = prop::collection::vec((0u8..5, any::<u64>(), off, prop::bool::weighted(0.3), shape, fine).prop_map(|(class, page, off, boolean, shape, fine)| SynthSpec { class, page, off: if shape % 5 == 0 && shape != 5 { off } else { off.min(0xF80) }, boolean, shape, fine, twin: if (page >> 40) % 3 == 0 { Some((page >> 32) as u8 % 4) } else { None } }), 0..=3);
    // few targets so that repetition on one target is common
    let step = prop_oneof![
        3 => (0u8..12, kind_strategy(), 0u8..4).prop_map(|(t, kind, k)| Step::Install { t, kind, k }),
        2 => (0u8..12).prop_map(|t| Step::Call { t }),
        1 => (9u8..14).prop_map(|t| Step::Reseal { t }),
        1 => if squat > 0.0 { Just(Step::SquatReleased).boxed() } else { (9u8..14).prop_map(|t| Step::Reseal { t }).boxed() },
    ];
    let rw = if rewrites { prop::option::weighted(0.25, (any::<u8>(), any::<u16>())).boxed() } else { Just(None).boxed() };
    // a "re-fake run": one function faked 3-5 times in a row from a palette of two kinds (so that
    // a kind recurs after a different one in between), called after every installation
    let refake = (0u8..12, kind_strategy(), kind_strategy(), prop::collection::vec(any::<bool>(), 3..=5), 0u8..4).prop_map(|(t, a, b, picks, k)| {
        let mut v = vec![];
        for (i, p) in picks.iter().enumerate() {
            // first and third installation use the same kind, the rest follow the picks
            let kind = if i == 0 || i == 2 { a } else if i == 1 || *p { b } else { a };
            v.push(Step::Install { t, kind, k });
            v.push(Step::Call { t });
        }
        v
    });
    let steps = prop_oneof![
        4 => prop::collection::vec(step.clone(), 0..=max_steps).boxed(),
        1 => (prop::collection::vec(step.clone(), 0..=max_steps / 2), refake, prop::collection::vec(step, 0..=max_steps / 3)).prop_map(|(mut a, b, c)| { a.extend(b); a.extend(c); a }).boxed(),
    ];
    let life = (steps, prop_oneof![3 => Just(Exit::Normal), 1 => Just(Exit::Unwind)], rw, prop::bool::weighted(deny_wx), prop::bool::weighted(squat)).prop_map(|(steps, exit, rewrite, deny_wx, squat)| Lifetime { steps, exit, rewrite, deny_wx, squat, munmap_fault: 0, race_map: 0, mmap_fail: 0 });
    (synth, prop::collection::vec(life, 1..=max_lifetimes), any::<u8>()).prop_map(|(synth, lifetimes, focus)| {
        // concentrate the history on a few targets: indices are folded onto a window of 4
        let lifetimes = lifetimes
            .into_iter()
            .map(|l| Lifetime {
                steps: l
                    .steps
                    .into_iter()
                    .map(|s| match s {
                        Step::Install { t, kind, k } => Step::Install { t: focus.wrapping_add(t % 4), kind, k },
                        Step::Call { t } => Step::Call { t: focus.wrapping_add(t % 4) },
                        Step::Reseal { t } => Step::Reseal { t: focus.wrapping_add(t % 4) },
                        Step::SquatReleased => Step::SquatReleased,
                    })
                    .collect(),
                exit: l.exit,
                rewrite: l.rewrite,
                deny_wx: l.deny_wx,
                squat: l.squat,
                munmap_fault: 0,
                race_map: 0,
                mmap_fail: 0,
            })
            .collect();
        HistCase { synth, lifetimes, repeat: 1, in_teardown: focus % 11 == 3 }
    })
}
