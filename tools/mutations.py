"""Catalogue of small source mutations used by tools/audit.py (DESIGN.md "must catch" lists).
Each edit = (file, old, new[, expected occurrence count])."""

AMD = "src/injector_core/patch_amd64.rs"
COMMON = "src/injector_core/common.rs"
INJ = "src/interface/injector.rs"
ARM64 = "src/injector_core/patch_arm64.rs"
GEN64 = "src/injector_core/arm64_codegenerator.rs"
ARM = "src/injector_core/patch_arm.rs"
MACROS = "src/interface/macros.rs"
VERIFIER = "src/interface/verifier.rs"

MUTATIONS = [
    # ---- C01
    {"name": "c01_rel32_upper_off_by_one", "props": ["C01"], "edits": [(AMD, "offset <= i32::MAX as isize", "offset <= i32::MAX as isize + 1")]},
    {"name": "c01_rel32_lower_off_by_one", "props": ["C01"], "edits": [(AMD, "offset >= i32::MIN as isize", "offset >= i32::MIN as isize - 1")]},
    {"name": "c01_plus4", "props": ["C01"], "edits": [(AMD, "(ori_func as isize + 5)", "(ori_func as isize + 4)")]},
    {"name": "c01_imm64_truncated", "props": ["C01", "C13"], "edits": [(AMD, "(target_func as u64).to_le_bytes()", "(target_func as u32 as u64).to_le_bytes()")]},
    {"name": "c01_first_page_only", "props": ["C01"], "edits": [(COMMON, "        page_end - page_start,\n        PROT_READ", "        page_size,\n        PROT_READ")]},
    {"name": "c01_bool_wrong_byte", "props": ["C01", "C10"], "edits": [(AMD, "asm_code[3] = value as u8;", "asm_code[4] = value as u8;")]},
    {"name": "c01_wrong_jmp_opcode", "props": ["C01"], "edits": [(AMD, "const JMP_RAX_OPCODE: [u8; 2] = [0xFF, 0xE0];", "const JMP_RAX_OPCODE: [u8; 2] = [0xFF, 0xD0];")]},
    # ---- C02
    {"name": "c02_install_order_drop", "props": ["C02"], "edits": [(INJ, "        while let Some(guard) = self.guards.pop() {\n            drop(guard);\n        }", "        for guard in self.guards.drain(..) {\n            drop(guard);\n        }")]},
    {"name": "c02_restore_one_byte_short", "props": ["C02"], "edits": [(COMMON, "&self.original_bytes[..self.patch_size]", "&self.original_bytes[..self.patch_size - 1]")]},
    {"name": "c02_skip_restore_when_unwinding", "props": ["C02", "C05"], "edits": [(COMMON, "    fn drop(&mut self) {\n        unsafe {\n            patch_function(", "    fn drop(&mut self) {\n        if std::thread::panicking() {\n            return;\n        }\n        unsafe {\n            patch_function(")]},
    {"name": "c02_original_read_after_patch", "props": ["C02"], "edits": [(AMD, "    let original_bytes = unsafe { read_bytes(src.as_ptr() as *mut u8, patch_size) };\n\n    unsafe {\n        patch_function(src.as_ptr() as *mut u8, &branch_code);\n    }\n", "    unsafe {\n        patch_function(src.as_ptr() as *mut u8, &branch_code);\n    }\n    let original_bytes = unsafe { read_bytes(src.as_ptr() as *mut u8, patch_size) };\n")]},
    # ---- C03
    {"name": "c03_patch_padded_into_neighbour", "props": ["C03"], "edits": [(AMD, "    let branch_code = generate_branch_to_target_function(func_addr, jit_addr);\n    let patch_size", "    let mut branch_code = generate_branch_to_target_function(func_addr, jit_addr);\n    branch_code.resize(24, 0x90);\n    let patch_size")]},
    # ---- C12 / C11
    {"name": "c12_no_munmap_on_drop", "props": ["C12"], "edits": [(COMMON, "                    libc::munmap(self.jit_memory as *mut c_void, self.jit_size);", "                    let _ = self.jit_size;")]},
    {"name": "c12_munmap_wrong_address", "props": ["C12"], "edits": [(COMMON, "libc::munmap(self.jit_memory as *mut c_void, self.jit_size);", "libc::munmap(self.jit_memory.add(4096) as *mut c_void, self.jit_size);")]},
    {"name": "c11_rejected_mapping_not_returned", "props": ["C11", "C12"], "edits": [(COMMON, "                } else {\n                    unsafe { libc::munmap(ptr, code_size) };\n                }", "                }")]},
    {"name": "c11_allocator_accepts_exact_range", "props": ["C11"], "edits": [(COMMON, "                if diff < max_range {\n                    return ptr as *mut u8;\n                } else {\n                    unsafe { libc::munmap(ptr, code_size) };", "                if diff <= max_range {\n                    return ptr as *mut u8;\n                } else {\n                    unsafe { libc::munmap(ptr, code_size) };")]},
    {"name": "c11_arm64_restore_one_word_short", "props": ["C02"], "edits": [(ARM64, "        original_bytes.to_vec(),\n        PATCH_SIZE,", "        original_bytes.to_vec(),\n        PATCH_SIZE - 4,")]},
    {"name": "c17_arm_patch_written_without_flush", "props": ["C17"], "edits": [(ARM, "            patch_function(src_ptr as *mut u8, &patch);", "            std::ptr::copy_nonoverlapping(patch.as_ptr(), src_ptr as *mut u8, patch.len());")]},
    # ---- C17
    {"name": "c17_no_flush_in_inject", "props": ["C17"], "edits": [(COMMON, "    clear_cache(dest, dest.add(asm_code.len()));", "    let _ = dest;")]},
    {"name": "c17_flush_range_one_short", "props": ["C17"], "edits": [(COMMON, "    clear_cache(dest, dest.add(asm_code.len()));", "    clear_cache(dest, dest.add(asm_code.len() - 1));")]},
    {"name": "c17_flush_before_copy", "props": ["C17"], "edits": [(COMMON, "    ptr::copy_nonoverlapping(asm_code.as_ptr(), dest, asm_code.len());\n", "    clear_cache(dest, dest.add(asm_code.len()));\n    ptr::copy_nonoverlapping(asm_code.as_ptr(), dest, asm_code.len());\n"), (COMMON, "    pthread_jit_write_protect_np(1);\n\n    clear_cache(dest, dest.add(asm_code.len()));", "    pthread_jit_write_protect_np(1);\n")]},
    # ---- C13
    {"name": "c13_long_form_uses_rcx", "props": ["C13"], "edits": [(AMD, "const MOV_RAX_OPCODE: [u8; 2] = [0x48, 0xB8];", "const MOV_RAX_OPCODE: [u8; 2] = [0x48, 0xB9];"), (AMD, "const JMP_RAX_OPCODE: [u8; 2] = [0xFF, 0xE0];", "const JMP_RAX_OPCODE: [u8; 2] = [0xFF, 0xE1];")]},
    # ---- C10
    {"name": "c10_stub_ret8", "props": ["C10"], "edits": [(AMD, "        0xC3, // ret", "        0xC2, // ret imm16 (truncated)")]},
    # ---- C04
    {"name": "c04_preventer_uses_its_own_lock", "props": ["C04"], "edits": [(INJ, "static LOCK_FUNCTION: NoPoisonMutex<()> = NoPoisonMutex::new(());", "static LOCK_FUNCTION: NoPoisonMutex<()> = NoPoisonMutex::new(());\nstatic LOCK_PREVENT: NoPoisonMutex<()> = NoPoisonMutex::new(());"), (INJ, "    pub fn prevent() -> Preventer {\n        let lock = LOCK_FUNCTION.lock();", "    pub fn prevent() -> Preventer {\n        let lock = LOCK_PREVENT.lock();")]},
    {"name": "c04_lock_released_before_restoration", "props": ["C04"], "edits": [(INJ, "        while let Some(guard) = self.guards.pop() {\n            drop(guard);\n        }", "        let early: MutexGuard<'static, ()> = unsafe { std::ptr::read(&self._lock) };\n        drop(early);\n        while let Some(guard) = self.guards.pop() {\n            drop(guard);\n        }\n        let relock = LOCK_FUNCTION.lock();\n        unsafe { std::ptr::write(&mut self._lock, relock) };")]},
    # ---- C05
    {"name": "c05_verifier_panics_while_unwinding", "props": ["C05"], "edits": [(VERIFIER, "                if std::thread::panicking() {\n                    return;\n                }\n", "")]},
    {"name": "c05_plain_mutex_poisoned", "props": ["C05", "C04"], "edits": [(INJ, "            Err(poisoned) => {\n                // Swallow the poison and give the guard anyway\n                poisoned.into_inner()\n            }", "            Err(poisoned) => {\n                panic!(\"lock poisoned: {poisoned}\")\n            }")]},
    {"name": "c05_signature_checked_after_patching", "props": ["C05", "C09"], "edits": [(INJ, """    pub fn will_execute_raw(self, target: FuncPtr) {
        if target.signature != self.expected_signature {
            panic!(
                "Signature mismatch: expected {:?} but got {:?}",
                self.expected_signature, target.signature
            );
        }

        let guard = self.when.will_execute_guard(target.func_ptr_internal);
        self.lib.guards.push(guard);""", """    pub fn will_execute_raw(self, target: FuncPtr) {
        let mismatch = target.signature != self.expected_signature;
        let (exp, got) = (self.expected_signature, target.signature);
        let guard = self.when.will_execute_guard(target.func_ptr_internal);
        if mismatch {
            panic!("Signature mismatch: expected {:?} but got {:?}", exp, got);
        }
        self.lib.guards.push(guard);""")]},
    {"name": "c05_guard_forgotten_when_unwinding", "props": ["C05", "C02"], "edits": [(INJ, "        while let Some(guard) = self.guards.pop() {\n            drop(guard);\n        }", "        while let Some(guard) = self.guards.pop() {\n            if std::thread::panicking() && self.guards.len() >= 2 {\n                std::mem::forget(guard);\n                continue;\n            }\n            drop(guard);\n        }")]},
    # ---- C06 / C07
    {"name": "c07_counter_never_reset", "props": ["C07"], "edits": [(INJ, "            counter.store(0, std::sync::atomic::Ordering::SeqCst);", "            let _ = counter;")]},
    {"name": "c07_reset_to_one", "props": ["C07", "C06"], "edits": [(INJ, "            counter.store(0, std::sync::atomic::Ordering::SeqCst);", "            counter.store(1, std::sync::atomic::Ordering::SeqCst);")]},
    {"name": "c06_load_store_instead_of_fetch_add", "props": ["C06"], "edits": [(MACROS, "let prev = FAKE_COUNTER.fetch_add(1, Ordering::SeqCst);", "let prev = FAKE_COUNTER.load(Ordering::SeqCst); std::thread::yield_now(); FAKE_COUNTER.store(prev + 1, Ordering::SeqCst);", 28)]},
    {"name": "c06_bare_load_store", "props": ["C06"], "edits": [(MACROS, "let prev = FAKE_COUNTER.fetch_add(1, Ordering::SeqCst);", "let prev = FAKE_COUNTER.load(Ordering::SeqCst); FAKE_COUNTER.store(prev + 1, Ordering::SeqCst);", 28)]},
    {"name": "c06_budget_off_by_one", "props": ["C06"], "edits": [(MACROS, "if prev >= $expected {", "if prev > $expected {", 28)]},
    {"name": "c06_verifier_less_than", "props": ["C06"], "edits": [(VERIFIER, "if call_times != *expected {", "if call_times < *expected {")]},
    {"name": "c06_message_without_actual", "props": ["C06"], "edits": [(VERIFIER, "but it is actually called {call_times} time(s)", "but it was called a different number of times")]},
    {"name": "c06_count_before_when", "props": ["C06"], "edits": [(MACROS, """         fn fake($($arg_name: $arg_ty),*) -> $ret {
             if $cond {
                 let prev = FAKE_COUNTER.fetch_add(1, Ordering::SeqCst);
                 if prev >= $expected {
                     panic!("Fake function defined at {}:{}:{} called more times than expected", file!(), line!(), column!());
                 }
                 $ret_val
             } else {""", """         fn fake($($arg_name: $arg_ty),*) -> $ret {
             let prev = FAKE_COUNTER.fetch_add(1, Ordering::SeqCst);
             if $cond {
                 if prev >= $expected {
                     panic!("Fake function defined at {}:{}:{} called more times than expected", file!(), line!(), column!());
                 }
                 $ret_val
             } else {""")]},
    # ---- C08 (single arms: `which` selects one occurrence)
    {"name": "c08_one_arm_budget_flipped", "props": ["C08"], "edits": [(MACROS, "if prev >= $expected {", "if prev > $expected {", 28, 17)]},
    {"name": "c08_one_arm_when_ignored", "props": ["C08"], "edits": [(MACROS, "if $cond {", "if true || $cond {", 20, 12)]},
    {"name": "c08_one_arm_returns_before_assign", "props": ["C08"], "edits": [(MACROS, "                { $($assign)* }\n                $ret_val\n", "                let r = $ret_val;\n                { $($assign)* }\n                r\n", 10, 6)]},
    {"name": "c08_one_arm_counter_after_assign", "props": ["C08"], "edits": [(MACROS, """                let prev = FAKE_COUNTER.fetch_add(1, Ordering::SeqCst);
                if prev >= $expected {
                    panic!("Fake function defined at {}:{}:{} called more times than expected", file!(), line!(), column!());
                }
                { $($assign)* }
                $ret_val""", """                { $($assign)* }
                let prev = FAKE_COUNTER.fetch_add(1, Ordering::SeqCst);
                if prev >= $expected {
                    panic!("Fake function defined at {}:{}:{} called more times than expected", file!(), line!(), column!());
                }
                $ret_val""", 5, 3)]},
    {"name": "c08_unit_arm_unbound_ret", "props": ["C08"], "edits": [(MACROS, "         let f: fn($($arg_ty),*) -> () = fake;", "         let f: fn($($arg_ty),*) -> $ret = fake;", 7, 1)]},
    {"name": "c08_system_arm_defines_c_abi_fake", "props": ["C08"], "edits": [(MACROS, 'unsafe extern "system" fn fake($($arg_name: $arg_ty),*) -> $ret {', 'unsafe extern "C" fn fake($($arg_name: $arg_ty),*) -> $ret {', 7, 2)]},
    # ---- C14
    {"name": "c14_async_guard_forgotten", "props": ["C14"], "edits": [(INJ, """    pub fn will_return_async(self, target: FuncPtr) {
        if target.signature != self.expected_signature {
            panic!(
                "Signature mismatch: expected {:?} but got {:?}",
                self.expected_signature, target.signature
            );
        }

        let guard = self.when.will_execute_guard(target.func_ptr_internal);
        self.lib.guards.push(guard);""", """    pub fn will_return_async(self, target: FuncPtr) {
        if target.signature != self.expected_signature {
            panic!(
                "Signature mismatch: expected {:?} but got {:?}",
                self.expected_signature, target.signature
            );
        }

        let guard = self.when.will_execute_guard(target.func_ptr_internal);
        std::mem::forget(guard);""")]},
    {"name": "c14_refake_restores_in_install_order", "props": ["C14", "C02"], "edits": [(INJ, "        while let Some(guard) = self.guards.pop() {\n            drop(guard);\n        }", "        for guard in self.guards.drain(..) {\n            drop(guard);\n        }")]},
    # ---- C15
    {"name": "c15_branch_range_typo", "props": ["C15"], "edits": [(ARM64, "-0x2000000..=0x1FF_FFFF;", "-0x2000000..=0x1FFF_FFFF;")]},
    {"name": "c15_movk_chunk_start", "props": ["C15"], "edits": [(ARM64, "emit_movk_from_address(target_addr, 32, true, u8_to_bits::<2>(2), register_name)", "emit_movk_from_address(target_addr, 48, true, u8_to_bits::<2>(2), register_name)")]},
    {"name": "c15_hw_swapped", "props": ["C15"], "edits": [(ARM64, "emit_movk_from_address(target_addr, 16, true, u8_to_bits::<2>(1), register_name)", "emit_movk_from_address(target_addr, 16, true, u8_to_bits::<2>(2), register_name)"), (ARM64, "emit_movk_from_address(target_addr, 32, true, u8_to_bits::<2>(2), register_name)", "emit_movk_from_address(target_addr, 32, true, u8_to_bits::<2>(1), register_name)")]},
    {"name": "c15_scratch_x19", "props": ["C15", "C13"], "edits": [(ARM64, "let register_name: [bool; 5] = u8_to_bits::<5>(9);", "let register_name: [bool; 5] = u8_to_bits::<5>(19);")]},
    {"name": "c15_adrp_logical_shift", "props": ["C15"], "edits": [(GEN64, "let page_diff = ((page_target as i64).wrapping_sub(page_pc as i64)) >> 12;", "let page_diff = (((page_target as i64).wrapping_sub(page_pc as i64)) as u64 >> 12) as i64 & 0xF_FFFF;")]},
    {"name": "c15_adrp_immlo_immhi_swapped", "props": ["C15"], "edits": [(GEN64, "let immlo = (imm21 & 0b11) as u32;\n    let immhi = ((imm21 >> 2) & 0x7ffff) as u32;", "let immlo = ((imm21 >> 19) & 0b11) as u32;\n    let immhi = (imm21 & 0x7ffff) as u32;")]},
    {"name": "c15_movk_as_movz", "props": ["C15"], "edits": [(GEN64, "    // Append fixed bits: 1, 1.\n    let fixed_bits2 = [true, true];", "    // Append fixed bits: 1, 1.\n    let fixed_bits2 = [false, true];")]},
    # ---- C16
    {"name": "c16_no_rotate_for_2mod4", "props": ["C16"], "edits": [(ARM, "if is_src_thumb && (src_ptr as usize % 4 != 0) {", "if is_src_thumb && (src_ptr as usize % 4 != 0) && false {")]},
    {"name": "c16_thumb_bit_stripped_from_literal", "props": ["C16"], "edits": [(ARM, "                // .word target\n                target.as_ptr() as u32,\n                // .word anything (unused)", "                // .word target\n                target.as_ptr() as u32 & !1,\n                // .word anything (unused)")]},
    {"name": "c16_patch_size_8", "props": ["C16"], "edits": [(ARM, "let patch_size = 12;", "let patch_size = 8;")]},
    {"name": "c16_bx_wrong_register", "props": ["C16"], "edits": [(ARM, "0xE12FFF19,", "0xE12FFF18,")]},
    {"name": "c16_arm_literal_offset", "props": ["C16"], "edits": [(ARM, "0xE51F9000,", "0xE59F9004,")]},
]
