//! Calling-convention cases (C13 redirection transparency, C10 forced-boolean behaviour).

use crate::arena::{Arena, PAGE};
use crate::driver::{signal_name, Exec};
use crate::interpose as ip;
use crate::place::synth_base;
use crate::probes::*;
use injectorpp::interface::injector::*;
use proptest::prelude::*;
use serde::{Deserialize, Serialize};
use serde_json::{json, Value};
use vcommon::Recorder;

#[derive(Serialize, Deserialize, Clone, Debug, Hash, PartialEq, Eq)]
pub enum ProbePlace {
    /// the assembly "original" inside this executable's text (fake is near: rel32 trampoline)
    Text(u8),
    /// a synthetic original in an arena (fake is far: mov rax, imm64; jmp rax)
    Arena { class: u8, page: u64, off: u16 },
}

#[derive(Serialize, Deserialize, Clone, Copy, Debug, Hash, PartialEq, Eq)]
pub enum ProbeMode {
    Fake,
    Bool(bool),
}

#[derive(Serialize, Deserialize, Clone, Debug, Hash, PartialEq, Eq)]
pub struct ProbeCase {
    pub place: ProbePlace,
    pub mode: ProbeMode,
    pub regs: RegFile,
    pub sig: u8,
    /// Some((page, off)): the fake handed to the injector is a register-neutral thunk
    /// (`jmp [rip+0]; .quad probe_fake`) placed at 0x8000_0000 + page*4096 + off, i.e. in the
    /// upper half of the low 4 GiB (bit 31 set), or, if `low` is false, anywhere in the low 4 GiB
    #[serde(default)]
    pub fake_thunk: Option<(u32, u16, bool)>,
    /// installations made on the same function through the same injector before the one under
    /// test (e.g. forced boolean, then the recorder fake, then the forced boolean under test)
    #[serde(default)]
    pub prior: Vec<ProbeMode>,
    /// also call the function at the earliest possible moment: when the library flushes the
    /// entry it has just patched (what a caller on another thread can do); only without earlier
    /// installations
    #[serde(default)]
    pub early: bool,
    /// the whole case runs from tear-down code executed while the thread unwinds from a failed
    /// test body (`std::thread::panicking()` is true throughout)
    #[serde(default)]
    pub in_teardown: bool,
}

#[derive(Serialize, Deserialize, Clone, Debug, Default)]
pub struct ProbeObs {
    pub status: String,
    pub why: String,
    pub target: u64,
    pub long_form: bool,
    #[serde(default)]
    pub tramp_addr: Option<u64>,
    /// rax after the call made from the flush hook (None = hook did not fire)
    #[serde(default)]
    pub early_rax: Option<u64>,
    #[serde(default)]
    pub early_callee_ok: bool,
    #[serde(default)]
    pub set_r10: u64,
    #[serde(default)]
    pub seen_r10: u64,
    #[serde(default)]
    pub seen_rflags: u64,
    pub fake_hits: u64,
    pub seen_args: Vec<u64>,
    pub seen_callee: Vec<u64>,
    pub seen_rsp: u64,
    pub seen_ret_addr: u64,
    pub seen_stack: Vec<u64>,
    pub seen_xmm: Vec<(u64, u64)>,
    /// AVX present: upper halves of ymm0-7 as the fake saw them / as the caller set them, and the
    /// upper half of ymm0 after the return / as the fake returned it
    #[serde(default)]
    pub wide: bool,
    #[serde(default)]
    pub seen_ymm_hi: Vec<(u64, u64)>,
    #[serde(default)]
    pub set_ymm_hi: Vec<(u64, u64)>,
    #[serde(default)]
    pub out_ymm0_hi: (u64, u64),
    #[serde(default)]
    pub ret_ymm0_hi: (u64, u64),
    pub caller_rsp_at_call: u64,
    pub ret_site: u64,
    pub out_rax: u64,
    pub out_rdx: u64,
    pub out_xmm0: (u64, u64),
    pub out_xmm1: (u64, u64),
    pub out_callee: Vec<u64>,
    pub out_rsp_delta: u64,
    pub out_stack: Vec<u64>,
    pub orig_hits: u64,
    pub panic: Option<String>,
    pub entry_bytes: Vec<u8>,
    pub tramp_bytes: Vec<u8>,
}

const ORIG_MARK: u32 = 0x0BAD_0003;

const BOOL_SIGS: [&str; 4] = ["fn() -> bool", "fn(u64, u64, u64, u64, u64, u64, u64, u64) -> bool", "unsafe extern \"C\" fn(f64, f64, u64) -> bool", "fn(&str, &[u8]) -> bool"];
const FAKE_SIGS: [&str; 3] = ["unsafe extern \"C\" fn(u64, u64, u64, u64, u64, u64, f64, f64, f64, f64, f64, f64, f64, f64, u64, u64) -> u128", "fn()", "unsafe extern \"C\" fn() -> u64"];

pub fn execute(c: &ProbeCase) -> ProbeObs {
    if c.in_teardown {
        crate::worker::while_unwinding(|| execute_inner(c))
    } else {
        execute_inner(c)
    }
}

fn execute_inner(c: &ProbeCase) -> ProbeObs {
    let mut o = ProbeObs::default();
    ip::plan_reset();
    ip::log_clear();
    let mut _arena = None;
    let target = match &c.place {
        ProbePlace::Text(w) => {
            if w % 2 == 0 {
                probe_orig as unsafe extern "C" fn() as usize
            } else {
                probe_orig2 as unsafe extern "C" fn() as usize
            }
        }
        ProbePlace::Arena { class, page, off } => {
            let base = synth_base(*class, *page) as usize;
            let Some(a) = Arena::map(base, 2 * PAGE) else {
                o.status = "discarded".into();
                o.why = format!("arena {base:#x} not mappable");
                return o;
            };
            let addr = base + (*off as usize % PAGE);
            // three in four synthetic originals start with a generated prologue (derived from
            // the case, so that the first bytes the entry patch overwrites vary)
            let pseed = page.rotate_left(9) ^ (*off as u64) << 3 ^ c.sig as u64;
            if pseed % 4 == 0 || addr + 32 > base + 2 * PAGE || a.put_prologue_fn(addr, ORIG_MARK, pseed) == 0 {
                a.put_ret_id(addr, ORIG_MARK);
            }
            a.seal();
            _arena = Some(a);
            addr
        }
    };
    o.target = target as u64;
    // ---- where the fake lives
    let mut _thunk_arena = None;
    let mut fake_ptr = probe_fake as unsafe extern "C" fn() as usize;
    if let Some((page, off, high)) = c.fake_thunk {
        let base = if high { 0x8000_0000usize + ((page as usize) % 0x7FFF0) * PAGE } else { 0x1000_0000usize + ((page as usize) % 0xEFFF0) * PAGE };
        let Some(a) = Arena::map(base, 2 * PAGE) else {
            o.status = "discarded".into();
            o.why = format!("thunk arena {base:#x} not mappable");
            return o;
        };
        let addr = base + (off as usize % (PAGE - 16));
        let mut code = vec![0xFFu8, 0x25, 0, 0, 0, 0];
        code.extend_from_slice(&(fake_ptr as u64).to_le_bytes());
        a.put(addr, &code);
        a.seal();
        _thunk_arena = Some(a);
        fake_ptr = addr;
    }
    let mut ctx = ctx_from(&c.regs, target as u64);
    let mut rec = rec_from(&c.regs);
    unsafe {
        PROBE_REC_PTR = &mut *rec as *mut FakeRec as u64;
        PROBE_ORIG_HITS = 0;
    }
    crate::worker::phase("install");
    let early_res: std::rc::Rc<std::cell::RefCell<Option<(u64, bool)>>> = Default::default();
    if c.early && c.prior.is_empty() {
        let mut ctx2 = ctx_from(&c.regs, target as u64);
        let er = early_res.clone();
        let want_callee = c.regs.callee;
        ip::set_flush_hook(target, Box::new(move || {
            unsafe { probe_call(&mut *ctx2 as *mut Ctx) };
            *er.borrow_mut() = Some((ctx2.out_rax, ctx2.out_callee == want_callee && ctx2.out_rsp_delta == 0));
        }));
    }
    let r = std::panic::catch_unwind(std::panic::AssertUnwindSafe(|| {
        ip::sut(|| {
            let mut inj = InjectorPP::new();
            // one signature for the whole history: a bool-returning one as soon as a forced
            // boolean takes part
            let any_bool = c.prior.iter().chain(std::iter::once(&c.mode)).any(|m| matches!(m, ProbeMode::Bool(_)));
            let sig = if any_bool { BOOL_SIGS[c.sig as usize % BOOL_SIGS.len()] } else { FAKE_SIGS[c.sig as usize % FAKE_SIGS.len()] };
            unsafe {
                for m in c.prior.iter().take(3).chain(std::iter::once(&c.mode)) {
                    match m {
                        ProbeMode::Fake => {
                            inj.when_called(FuncPtr::new(target as *const (), sig)).will_execute_raw(FuncPtr::new(fake_ptr as *const (), sig));
                        }
                        ProbeMode::Bool(v) => {
                            inj.when_called(FuncPtr::new(target as *const (), sig)).will_return_boolean(*v);
                        }
                    }
                }
            }
            inj
        })
    }));
    ip::clear_flush_hook();
    if let Some((rax, ok)) = *early_res.borrow() {
        o.early_rax = Some(rax);
        o.early_callee_ok = ok;
    }
    let inj = match r {
        Ok(i) => i,
        Err(_) => {
            o.status = "refused".into();
            o.panic = Some(crate::worker::last_panic());
            return o;
        }
    };
    o.entry_bytes = crate::mem::read_direct(target, 16);
    // trampoline bytes (from the interposer log) to classify the form
    for e in ip::log_snapshot() {
        if e.kind == ip::Kind::Mmap && e.ret != ip::MAP_FAILED as u64 && crate::maps::readable(e.ret as usize, 16) {
            let b = crate::mem::read_direct(e.ret as usize, 16);
            if b.iter().any(|x| *x != 0) {
                o.tramp_bytes = b;
                o.tramp_addr = Some(e.ret);
            }
        }
    }
    // "long" = the fake is out of rel32 reach of the trampoline (whatever instruction sequence the
    // library chooses for that), or the well-known absolute form is seen
    let out_of_reach = o.tramp_addr.map(|t| { let d = (fake_ptr as i128) - (t as i128 + 5); d < i32::MIN as i128 || d > i32::MAX as i128 }).unwrap_or(false);
    o.long_form = o.tramp_bytes.starts_with(&[0x48, 0xB8]) || out_of_reach;
    crate::worker::phase("call");
    unsafe { probe_call(&mut *ctx as *mut Ctx) };
    crate::worker::phase("drop");
    let _ = std::panic::catch_unwind(std::panic::AssertUnwindSafe(|| ip::sut(|| drop(inj))));
    o.status = "ran".into();
    o.fake_hits = rec.hits;
    o.seen_args = rec.args.to_vec();
    o.seen_callee = rec.callee.to_vec();
    o.seen_rsp = rec.rsp;
    o.set_r10 = ctx.r10;
    o.seen_r10 = rec.r10;
    o.seen_rflags = rec.rflags;
    o.seen_ret_addr = rec.ret_addr;
    o.seen_stack = rec.stack.to_vec();
    o.seen_xmm = rec.xmm.iter().map(|x| (x[0], x[1])).collect();
    o.wide = ctx.wide != 0;
    o.seen_ymm_hi = rec.ymm_hi.iter().map(|x| (x[0], x[1])).collect();
    o.set_ymm_hi = ctx.ymm_hi.iter().map(|x| (x[0], x[1])).collect();
    o.out_ymm0_hi = (ctx.out_ymm0_hi[0], ctx.out_ymm0_hi[1]);
    o.ret_ymm0_hi = (rec.ret_ymm0_hi[0], rec.ret_ymm0_hi[1]);
    o.caller_rsp_at_call = ctx.scratch_rsp;
    o.ret_site = ret_site();
    o.out_rax = ctx.out_rax;
    o.out_rdx = ctx.out_rdx;
    o.out_xmm0 = (ctx.out_xmm0[0], ctx.out_xmm0[1]);
    o.out_xmm1 = (ctx.out_xmm1[0], ctx.out_xmm1[1]);
    o.out_callee = ctx.out_callee.to_vec();
    o.out_rsp_delta = ctx.out_rsp_delta;
    o.out_stack = ctx.out_stack.to_vec();
    o.orig_hits = unsafe { PROBE_ORIG_HITS };
    o
}

pub fn strategy(modes: Vec<ProbeMode>) -> impl Strategy<Value = ProbeCase> {
    let place = prop_oneof![
        1 => (0u8..2).prop_map(ProbePlace::Text),
        1 => (0u8..5, any::<u64>(), prop_oneof![3 => 0u16..0x1000, 1 => 0xFF0u16..=0xFFF]).prop_map(|(class, page, off)| ProbePlace::Arena { class, page, off }),
    ];
    let any_mode = prop_oneof![Just(ProbeMode::Fake), Just(ProbeMode::Bool(true)), Just(ProbeMode::Bool(false))];
    let prior = prop_oneof![
        6 => Just(vec![]),
        2 => prop::collection::vec(any_mode, 1..=2),
        1 => any::<bool>().prop_map(|v| vec![ProbeMode::Bool(v), ProbeMode::Fake]),
        1 => any::<bool>().prop_map(|v| vec![ProbeMode::Fake, ProbeMode::Bool(v)]),
    ];
    (place, proptest::sample::select(modes), regfile(), any::<u8>(), prop::option::weighted(0.4, (any::<u32>(), 0u16..0x1000, prop::bool::weighted(0.6))), prior, prop::bool::weighted(0.3)).prop_map(|(place, mode, regs, sig, fake_thunk, prior, early)| {
        let early = early && prior.is_empty();
        ProbeCase { place, mode, regs, sig, fake_thunk, prior, early, in_teardown: false }
    })
    .prop_flat_map(|c| (Just(c), prop::bool::weighted(0.07)).prop_map(|(mut c, t)| {
        c.in_teardown = t;
        c
    }))
}

pub fn judge(rec: &mut Recorder, c: &ProbeCase, ex: Exec, _hello: &Value) -> Result<(), String> {
    let prop = rec.property.clone();
    let o: ProbeObs = match ex {
        Exec::Timeout => {
            rec.count("watchdog", 1);
            if rec.counters.get("watchdog").copied().unwrap_or(0) > 3 {
                rec.inconclusive.push("worker watchdog expired repeatedly".into());
            }
            return Ok(());
        }
        Exec::Died { signal, code, phase, stderr_tail } => {
            rec.eval(|| json!({"case": c, "outcome": "worker died"}));
            let s = signal.map(signal_name).unwrap_or("exit");
            return rec.fail(&format!("{prop}/native/died/{s}/{phase}"), format!("worker died ({s} code {code:?}) in phase '{phase}' while executing {c:?}; stderr: {stderr_tail}"));
        }
        Exec::Obs(v) => {
            if let Some(e) = v.get("harness_error") {
                rec.inconclusive.push(format!("harness error: {e}"));
                return Ok(());
            }
            match serde_json::from_value(v) {
                Ok(o) => o,
                Err(e) => {
                    rec.inconclusive.push(format!("bad observation: {e}"));
                    return Ok(());
                }
            }
        }
    };
    if o.status == "discarded" {
        rec.count("discarded", 1);
        return Ok(());
    }
    if c.in_teardown {
        rec.class("case-inside-tear-down-while-unwinding");
    }
    rec.eval(|| json!({"case": c, "target": format!("{:#x}", o.target), "long_form": o.long_form, "entry": o.entry_bytes, "trampoline": o.tramp_bytes}));
    if o.status == "refused" {
        rec.count("refused", 1);
        return rec.fail(&format!("{prop}/native/probe-install-refused"), format!("installation on a probe target panicked: {:?}; case {c:?}", o.panic));
    }
    let n = c.regs.nstack.min(16) as usize;
    let sig = |s: &str| format!("{prop}/native/{}/{s}", if o.long_form { "long" } else { "short" });
    let names = ["rbx", "rbp", "r12", "r13", "r14", "r15"];
    match c.mode {
        ProbeMode::Fake => {
            rec.class(if o.long_form { "fake/long-trampoline" } else { "fake/short-trampoline" });
            if !c.prior.is_empty() {
                rec.class("fake-after-earlier-installations");
            }
            if let Some((_, _, high)) = c.fake_thunk {
                rec.class(if high { "fake-via-thunk/bit31-set" } else { "fake-via-thunk/low-4GiB" });
            }
            let want_hits = 1 + o.early_rax.is_some() as u64;
            if o.early_rax.is_some() {
                rec.class("fake/also-called-while-being-installed");
            }
            if o.fake_hits != want_hits {
                return rec.fail(&sig("fake-not-reached-once"), format!("the fake was entered {} times for {want_hits} call(s) (original ran {} times, rax {:#x}); case {c:?}", o.fake_hits, o.orig_hits, o.out_rax));
            }
            let argn = ["rdi", "rsi", "rdx", "rcx", "r8", "r9"];
            for i in 0..6 {
                if o.seen_args[i] != c.regs.args[i] {
                    return rec.fail(&sig(&format!("argument-register-changed/{}", argn[i])), format!("fake saw {}={:#x}, caller set {:#x}; case {c:?}", argn[i], o.seen_args[i], c.regs.args[i]));
                }
            }
            for i in 0..8 {
                if o.seen_xmm[i] != c.regs.xmm[i] {
                    return rec.fail(&sig(&format!("vector-register-changed/xmm{i}")), format!("fake saw xmm{i}={:x?}, caller set {:x?}", o.seen_xmm[i], c.regs.xmm[i]));
                }
            }
            if o.wide && o.seen_ymm_hi.len() == 8 && o.set_ymm_hi.len() == 8 {
                rec.class("fake/256-bit-vector-arguments");
                for i in 0..8 {
                    if o.seen_ymm_hi[i] != o.set_ymm_hi[i] {
                        return rec.fail(&sig(&format!("vector-register-changed/ymm{i}-upper-half")), format!("fake saw bits 128..255 of ymm{i} = {:x?}, caller set {:x?} (a 256-bit vector argument is passed in the full register; the low half arrived intact)", o.seen_ymm_hi[i], o.set_ymm_hi[i]));
                    }
                }
            }
            for i in 0..6 {
                if o.seen_callee[i] != c.regs.callee[i] {
                    return rec.fail(&sig(&format!("callee-saved-changed-on-entry/{}", names[i])), format!("fake saw {}={:#x}, caller had {:#x}", names[i], o.seen_callee[i], c.regs.callee[i]));
                }
            }
            for i in 0..n {
                if o.seen_stack[i] != c.regs.stack[i] {
                    return rec.fail(&sig("stack-argument-changed"), format!("fake saw stack word {i} = {:#x}, caller pushed {:#x} (nstack {n})", o.seen_stack[i], c.regs.stack[i]));
                }
            }
            if o.seen_rsp != o.caller_rsp_at_call.wrapping_sub(8) || o.seen_ret_addr != o.ret_site {
                return rec.fail(&sig("stack-pointer-or-return-address-changed"), format!("fake entered with rsp={:#x} [rsp]={:#x}; caller's rsp at the call was {:#x} (expected rsp-8) and its return site {:#x}", o.seen_rsp, o.seen_ret_addr, o.caller_rsp_at_call, o.ret_site));
            }
            if o.out_rax != c.regs.ret_rax || o.out_rdx != c.regs.ret_rdx || o.out_xmm0 != c.regs.ret_xmm0 || o.out_xmm1 != c.regs.ret_xmm1 {
                return rec.fail(&sig("return-value-changed"), format!("caller saw rax={:#x} rdx={:#x} xmm0={:x?} xmm1={:x?}; fake returned rax={:#x} rdx={:#x} xmm0={:x?} xmm1={:x?}", o.out_rax, o.out_rdx, o.out_xmm0, o.out_xmm1, c.regs.ret_rax, c.regs.ret_rdx, c.regs.ret_xmm0, c.regs.ret_xmm1));
            }
            if o.wide && o.out_ymm0_hi != o.ret_ymm0_hi {
                return rec.fail(&sig("return-value-changed/ymm0-upper-half"), format!("caller saw bits 128..255 of ymm0 = {:x?}; the fake returned {:x?} (a 256-bit vector is returned in the full register)", o.out_ymm0_hi, o.ret_ymm0_hi));
            }
        }
        ProbeMode::Bool(v) => {
            rec.class(&format!("bool={v}/{}", match c.place { ProbePlace::Text(_) => "text", _ => "arena" }));
            if !c.prior.is_empty() {
                rec.class(&format!("bool-after/{}", c.prior.iter().map(|m| match m { ProbeMode::Fake => "fake".to_string(), ProbeMode::Bool(b) => format!("bool={b}") }).collect::<Vec<_>>().join(",")));
            }
            if o.out_rax & 0xFF != v as u64 {
                return rec.fail(&sig("boolean-wrong-value"), format!("al={:#x} after the call, requested {v}; case {c:?}", o.out_rax & 0xFF));
            }
            if let Some(rax) = o.early_rax {
                rec.class("bool/also-called-while-being-installed");
                if rax & 0xFF != v as u64 || !o.early_callee_ok {
                    return rec.fail(&sig("boolean-wrong-for-a-call-during-installation"), format!("a call made when the library had just patched and flushed the entry (before will_return_boolean returned) came back with al={:#x} (requested {v}), callee-saved registers and rsp intact: {}; case {c:?}", rax & 0xFF, o.early_callee_ok));
                }
            }
            if o.fake_hits != 0 {
                return rec.fail(&sig("superseded-fake-ran"), format!("a fake installed before the forced boolean ran {} time(s) although the forced boolean is the most recent installation (earlier installations {:?}); case {c:?}", o.fake_hits, c.prior));
            }
            if o.orig_hits != 0 || o.out_rax as u32 == ORIG_MARK {
                return rec.fail(&sig("original-body-ran"), format!("the original body ran (hits {}, rax {:#x})", o.orig_hits, o.out_rax));
            }
        }
    }
    for i in 0..6 {
        if o.out_callee[i] != c.regs.callee[i] {
            return rec.fail(&sig(&format!("callee-saved-not-preserved/{}", names[i])), format!("after the call {}={:#x}, before {:#x}; case {c:?}", names[i], o.out_callee[i], c.regs.callee[i]));
        }
    }
    if o.out_rsp_delta != 0 {
        return rec.fail(&sig("stack-pointer-not-restored"), format!("rsp after return differs from rsp before the call by {:#x}", o.out_rsp_delta));
    }
    if o.orig_hits != 0 {
        return rec.fail(&sig("original-body-ran"), format!("the original body ran {} time(s)", o.orig_hits));
    }
    rec.nontrivial(&(&c.regs, o.long_form, c.mode, o.target));
    Ok(())
}
