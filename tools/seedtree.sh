#!/bin/bash
# seedtree.sh <seed-name>: scratch copy of /repo with /verif/seeded/<name>/patch.diff applied; prints its path
set -eu
d=/var/tmp/verif-seedtree-$1
rm -rf "$d"; mkdir -p "$d"
cp -r /repo/Cargo.toml /repo/Cargo.lock /repo/src /repo/tests "$d"/
( cd "$d" && git init -q . && git apply /verif/seeded/$1/patch.diff )
rm -rf "$d/.git"
echo "$d"
