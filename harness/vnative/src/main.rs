//! vnative — engine N: generated cases executed against the real crate in an isolated worker
//! process on this x86-64 host.  See /verif/DESIGN.md §2.1.

mod acct;
mod arena;
mod asyncs;
mod driver;
mod hist;
mod hist_judge;
mod interpose;
mod layout;
mod maps;
mod mem;
mod panics;
mod place;
mod probe_case;
mod probes;
mod shapes;
mod sigs;
mod targets;
mod threads;
mod times;
mod worker;

use driver::{signal_name, Exec, Worker};
use serde_json::{json, Value};
use std::time::Duration;
use vcommon::{arg_value, cases, out_path, run_prop, Recorder};

/// worker-side request dispatch
pub fn dispatch(req: &Value) -> Value {
    let op = req["op"].as_str().unwrap_or("");
    match op {
        "place" => match serde_json::from_value::<place::PlaceCase>(req["case"].clone()) {
            Ok(c) => serde_json::to_value(place::execute(&c)).unwrap(),
            Err(e) => json!({"harness_error": format!("bad place case: {e}")}),
        },
        "hist" => match serde_json::from_value::<hist::HistCase>(req["case"].clone()) {
            Ok(c) => {
                let opts: hist::Opts = serde_json::from_value(req["opts"].clone()).unwrap_or_default();
                serde_json::to_value(hist::execute(&c, &opts)).unwrap()
            }
            Err(e) => json!({"harness_error": format!("bad hist case: {e}")}),
        },
        "probe" => match serde_json::from_value::<probe_case::ProbeCase>(req["case"].clone()) {
            Ok(c) => serde_json::to_value(probe_case::execute(&c)).unwrap(),
            Err(e) => json!({"harness_error": format!("bad probe case: {e}")}),
        },
        "sig" => match serde_json::from_value::<sigs::SigCase>(req["case"].clone()) {
            Ok(c) => serde_json::to_value(sigs::execute_sig(&c)).unwrap(),
            Err(e) => json!({"harness_error": format!("bad sig case: {e}")}),
        },
        "boolsig" => match serde_json::from_value::<sigs::BoolCase>(req["case"].clone()) {
            Ok(c) => serde_json::to_value(sigs::execute_bool(&c)).unwrap(),
            Err(e) => json!({"harness_error": format!("bad bool case: {e}")}),
        },
        "shape" => match serde_json::from_value::<shapes::ShapeCase>(req["case"].clone()) {
            Ok(c) => serde_json::to_value(shapes::execute(&c)).unwrap(),
            Err(e) => json!({"harness_error": format!("bad shape case: {e}")}),
        },
        "layout" => match serde_json::from_value::<layout::LayoutCase>(req["case"].clone()) {
            Ok(c) => serde_json::to_value(layout::execute(&c)).unwrap(),
            Err(e) => json!({"harness_error": format!("bad layout case: {e}")}),
        },
        "times" => match serde_json::from_value::<times::TimesCase>(req["case"].clone()) {
            Ok(c) => serde_json::to_value(times::execute(&c)).unwrap(),
            Err(e) => json!({"harness_error": format!("bad times case: {e}")}),
        },
        "panic" => match serde_json::from_value::<panics::PanicCase>(req["case"].clone()) {
            Ok(c) => serde_json::to_value(panics::execute(&c)).unwrap(),
            Err(e) => json!({"harness_error": format!("bad panic case: {e}")}),
        },
        "threads" => match serde_json::from_value::<threads::ThreadCase>(req["case"].clone()) {
            Ok(c) => serde_json::to_value(threads::execute(&c)).unwrap(),
            Err(e) => json!({"harness_error": format!("bad thread case: {e}")}),
        },
        "async" => match serde_json::from_value::<asyncs::AsyncCase>(req["case"].clone()) {
            Ok(c) => serde_json::to_value(asyncs::execute(&c)).unwrap(),
            Err(e) => json!({"harness_error": format!("bad async case: {e}")}),
        },
        "ping" => json!({"pong": true}),
        _ => json!({"harness_error": format!("unknown op {op}")}),
    }
}

/// When set, every case runs in a fresh worker process (a case is then a complete process
/// history; needed where state lives in statics the harness cannot reset).
pub static FRESH_WORKER_PER_CASE: std::sync::atomic::AtomicBool = std::sync::atomic::AtomicBool::new(false);

pub fn shards() -> usize {
    std::env::var("VERIF_SHARDS").ok().and_then(|s| s.parse().ok()).unwrap_or(8)
}

/// Runs `total` generated cases split over parallel shards, each with its own worker process
/// and its own proptest runner (stream = base_stream*64 + shard).
pub fn run_sharded<C, S, J>(rec: &mut Recorder, base_stream: u64, total: u64, nshards: usize, op: &str, opts: Value, timeout: Duration, mk_strategy: impl Fn() -> S + Sync, judge: J, wrap: impl Fn(&C) -> Value + Sync)
where
    C: Clone + std::fmt::Debug + serde::Serialize + Send,
    S: proptest::strategy::Strategy<Value = C>,
    J: Fn(&mut Recorder, &C, Exec, &Value) -> Result<(), String> + Sync,
{
    let nshards = nshards.max(1);
    let per = (total / nshards as u64).max(1);
    let subs: Vec<Recorder> = std::thread::scope(|s| {
        let hs: Vec<_> = (0..nshards)
            .map(|sh| {
                let judge = &judge;
                let mk_strategy = &mk_strategy;
                let wrap = &wrap;
                let opts = &opts;
                let (prop, engine, rule) = (rec.property.clone(), rec.engine.clone(), rec.rule.clone());
                s.spawn(move || {
                    let mut sub = Recorder::new(&prop, &engine, &rule);
                    let mut w = Worker::spawn(&format!("{prop}-{engine}-{sh}"));
                    let hello = w.hello.clone();
                    if hello["saw_mmap"] != json!(true) || hello["saw_mprotect"] != json!(true) || hello["saw_flush"] != json!(true) {
                        sub.inconclusive.push(format!("worker calibration failed: {hello}; worker stderr: {}", w.stderr_tail_pub()));
                        return sub;
                    }
                    let fresh = FRESH_WORKER_PER_CASE.load(std::sync::atomic::Ordering::SeqCst);
                    let mut used = false;
                    let mut first_failure_history: Option<(Vec<String>, String)> = None;
                    let mut shrink_deadline: Option<std::time::Instant> = None;
                    let mut skipped = 0u64;
                    let out = run_prop(base_stream * 64 + sh as u64, per, mk_strategy(), |c: &C| {
                        if fresh && used {
                            w.retire();
                        }
                        used = true;
                        // a shard whose worker hung repeatedly stops executing (inconclusive);
                        // shrinking gets a bounded budget once a failure is known
                        if sub.counters.get("watchdog").copied().unwrap_or(0) > 3 || shrink_deadline.map(|d| std::time::Instant::now() > d).unwrap_or(false) {
                            skipped += 1;
                            return Ok(());
                        }
                        let ex = w.exec(&json!({"op": op, "case": c, "opts": opts}), timeout);
                        let r = judge(&mut sub, c, ex, &hello);
                        if let Err(m) = &r {
                            if first_failure_history.is_none() {
                                first_failure_history = Some((w.history.clone(), m.clone()));
                                shrink_deadline = Some(std::time::Instant::now() + Duration::from_secs(150));
                            }
                            sub.freeze();
                        }
                        r
                    });
                    if let Some((case, msg)) = out.failure {
                        let sig = msg.split(']').next().unwrap_or("").trim_start_matches('[').to_string();
                        // is the shrunk case self-contained?  run it once more in a fresh process
                        w.retire();
                        let mut scratch = Recorder::new(&prop, &engine, &rule);
                        let again = w.exec(&json!({"op": op, "case": &case, "opts": opts}), timeout);
                        let reproduces = judge(&mut scratch, &case, again, &hello).is_err();
                        sub.unfreeze();
                        match (reproduces, first_failure_history) {
                            (false, Some((hist, first_msg))) => {
                                // it needs what earlier cases left behind in the worker process:
                                // the replay file carries that process history (unshrunk, reproducible)
                                let seq: Vec<Value> = hist.iter().filter_map(|l| serde_json::from_str::<Value>(l).ok()).collect();
                                let fsig = first_msg.split(']').next().unwrap_or("").trim_start_matches('[').to_string();
                                sub.violation(&fsig, &format!("{first_msg} -- NOTE: depends on the history of the worker process (the shrunk case {case:?} passes in a fresh process); the replay file holds the {} requests that process had executed", seq.len()), json!({"Sequence": seq}));
                            }
                            _ => sub.violation(&sig, &msg, wrap(&case)),
                        }
                    }
                    sub.count("worker_processes", w.spawned);
                    if skipped > 0 {
                        sub.count("cases_not_executed_after_watchdog_or_shrink_budget", skipped);
                    }
                    sub
                })
            })
            .collect();
        hs.into_iter().map(|h| h.join().expect("shard")).collect()
    });
    for s in subs {
        rec.absorb(s);
    }
}

// ------------------------------------------------------------------------------------------------
// C01 (native)

fn judge_place(rec: &mut Recorder, c: &place::PlaceCase, ex: Exec, _hello: &Value) -> Result<(), String> {
    use place::*;
    let prop = rec.property.clone();
    let obs: PlaceObs = match ex {
        Exec::Timeout => {
            rec.count("watchdog", 1);
            if rec.counters.get("watchdog").copied().unwrap_or(0) > 3 {
                rec.inconclusive.push(format!("worker watchdog expired repeatedly; last case {c:?}"));
            }
            return Ok(());
        }
        Exec::Died { signal, code, phase, stderr_tail } => {
            rec.eval(|| json!({"case": c, "outcome": "worker died"}));
            let s = signal.map(signal_name).unwrap_or("exit");
            return rec.fail(&format!("{prop}/native/died/{s}/{phase}"), format!("worker died ({s} {signal:?} code {code:?}) in phase '{phase}' while executing {c:?}; stderr: {stderr_tail}"));
        }
        Exec::Obs(v) => {
            if let Some(e) = v.get("harness_error") {
                rec.inconclusive.push(format!("harness error: {e}"));
                return Ok(());
            }
            match serde_json::from_value(v) {
                Ok(o) => o,
                Err(e) => {
                    rec.inconclusive.push(format!("bad observation: {e}"));
                    return Ok(());
                }
            }
        }
    };
    let o = &obs;
    if o.status == "discarded" {
        rec.count("discarded", 1);
        rec.class("discarded");
        return Ok(());
    }
    if c.in_teardown {
        rec.class("case-inside-tear-down-while-unwinding");
    }
    rec.eval(|| json!({"case": c, "target": format!("{:#x}", o.target_addr), "trampoline_page": o.tramp_page.map(|p| format!("{p:#x}")), "fake": o.fake_addr.map(|p| format!("{p:#x}")), "status": o.status, "decode": o.decode_trace, "calls": o.calls}));
    let tclass = match &c.target {
        TargetSel::Real(_) => "real".to_string(),
        TargetSel::RealAsync(_) => "real-async-poll".to_string(),
        TargetSel::Synth { class, .. } => CLASS_RANGES[*class as usize % 5].2.to_string(),
    };
    let sig = |s: &str| format!("{prop}/native/{s}");
    if o.status == "refused" {
        rec.count("refused", 1);
        rec.class(&format!("{tclass}/refused"));
        if o.during != o.pre {
            return rec.fail(&sig("refused-but-target-modified"), format!("installation panicked ({:?}) but the target's bytes changed: {:02x?} -> {:02x?}; case {c:?}", o.panic, &o.pre[..16], &o.during[..16]));
        }
        return Ok(());
    }
    // installed
    let flav = match &c.fake {
        _ if matches!(c.target, TargetSel::RealAsync(_)) => "async_return".to_string(),
        FakeSel::Rust { kind, .. } => format!("{kind:?}"),
        FakeSel::Synth { api, .. } => format!("synth-api{}", api % 3),
        FakeSel::SynthAbs { api, .. } => format!("synth-abs-api{}", api % 3),
    };
    rec.class(&format!("{tclass}/{}{}", flav, if o.straddles { "/straddle" } else { "" }));
    if o.mprotect_fault_hit {
        rec.class(&format!("an-mprotect-of-the-installation-failed/{}", o.status));
    }
    if let Some((want, got)) = o.sibling_after {
        if want != got {
            return rec.fail(&format!("{prop}/native-place/sibling-faked-earlier-no-longer-reaches-its-fake"), format!("a function in the same page as the target was faked first (its fake yields {want}); after the installation under test a call of it returned {got}; case {c:?}"));
        }
    }
    if o.resealed {
        rec.class("target-pages-resealed-by-their-owner-after-earlier-installations");
    }
    if o.sibling_faked {
        if o.target_addr & 0xFFF == 0 {
            rec.class("sibling-in-the-same-page-faked-first/page-aligned-target");
        }
        rec.class(if o.straddles { "sibling-in-the-same-page-faked-first/straddle" } else { "sibling-in-the-same-page-faked-first" });
    }
    if o.priors > 0 {
        rec.class(&format!("re-fake/after-{}-earlier-installations", o.priors));
        if let (FakeSel::Rust { kind, .. }, Some((first, _))) = (&c.fake, c.prior.first()) {
            if kind == first && c.prior.len() >= 2 {
                rec.class("re-fake/same-kind-as-an-earlier-one");
            }
        }
    }
    let long_tramp = o.decode_trace.iter().any(|t| t.contains("movabs"));
    if long_tramp {
        rec.class("trampoline=long");
    } else {
        rec.class("trampoline=short-or-stub");
    }
    if !o.executed {
        return rec.fail(&sig("wrong-or-undecodable-destination"), format!("patched entry does not lead to the fake: end {} hops {:x?} trace {:?} expected dest {:x?}; case {c:?}", o.decode_end, o.decode_hops, o.decode_trace, o.expected_dest));
    }
    if let Some(r) = o.ret_rax {
        if r & 0xFF != o.expected_value & 0xFF {
            return rec.fail(&sig("stub-returns-wrong-value"), format!("stub returns {r:#x}, expected {}; trace {:?}", o.expected_value, o.decode_trace));
        }
    }
    if let Some(v) = o.early_value {
        rec.class("called-while-being-installed");
        if v != o.expected_value {
            return rec.fail(&sig("call-during-installation-missed-the-fake"), format!("a call made when the library had just patched and flushed the entry (before the installing call returned) came back with {v}, the fake returns {}; case {c:?}", o.expected_value));
        }
    }
    for (i, v) in o.calls.iter().enumerate() {
        if *v != o.expected_value {
            return rec.fail(&sig("call-returned-wrong-value"), format!("call #{i} (0 = installing thread, others = extra threads) returned {v}, the fake returns {}; case {c:?}", o.expected_value));
        }
    }
    if o.orig_runs_during != 0 {
        return rec.fail(&sig("original-body-ran"), format!("the original body ran {} time(s) while faked; case {c:?}", o.orig_runs_during));
    }
    rec.count("installed_and_called", 1);
    // non-trivial placements
    let d_edge = match &c.fake {
        FakeSel::Synth { d, .. } => (d - i32::MAX as i64).abs() <= 16 || (d - i32::MIN as i64).abs() <= 16,
        _ => false,
    };
    if o.straddles || o.target_addr < (1 << 27) || long_tramp || d_edge || o.priors > 0 {
        rec.nontrivial(&(o.target_addr, o.tramp_page, o.fake_addr, &flav, o.straddles));
    }
    Ok(())
}

fn cmd_place(prop: &str) -> i32 {
    let rule = "N: real crate, worker process with ASLR off; generated (target address class incl. in-page offset, 0-3 earlier installations on the same function, dictated trampoline page in +/-128 MiB, fake displacement from the trampoline incl. +/-2^31 edge and far, API flavour, caller threads); entry and trampoline decoded by the mini-decoder, then really called; non-trivial = installed-and-called case that is page-straddling, below 128 MiB, uses the long trampoline form, has a fake displacement within 16 of +/-2^31, or is a re-fake of a function faked 1-3 times before through the same injector; distinct by (target, trampoline page, fake, flavour)";
    let mut rec = Recorder::new(prop, "n-place", rule);
    rec.assumptions.push("x86-64 Linux host; symbol interposition of mmap/munmap/mprotect/__clear_cache by the executable (calibrated at worker start)".into());
    let only_async = std::env::args().any(|a| a == "--only-async");
    let n = if only_async { cases(1600, 60_000) } else { cases(4800, 160_000) };
    run_sharded(&mut rec, 1, n, shards(), "place", Value::Null, Duration::from_secs(20), move || place::strategy_sel(only_async), judge_place, |c| json!({"PlaceCase": c}));
    rec.finish(&out_path())
}

fn cmd_probe(prop: &str) -> i32 {
    use probe_case::ProbeMode;
    let (modes, engine, rule) = if prop == "C10" {
        (vec![ProbeMode::Bool(true), ProbeMode::Bool(false)], "n-probe-bool", "N: assembly caller stub loads a generated register file (6 integer argument registers, xmm0-7, rbx/rbp/r12-r15, 0-16 stack words) and calls a function whose result is forced with will_return_boolean(v) (target in program text or in an arena at a generated address, 4 signature shapes); oracle: al == v exactly, callee-saved registers and rsp as before the call, original body not run; every case is non-trivial; distinct by (register file, value, target)")
    } else {
        (vec![ProbeMode::Fake], "n-probe", "N: assembly caller stub loads a generated register file (6 integer argument registers, xmm0-7 full 128 bits, rbx/rbp/r12-r15, 0-16 stack words), calls the faked function; the recorder fake stores everything it sees on entry (incl. rsp and [rsp]) and returns generated rax/rdx/xmm0/xmm1; near target (rel32 trampoline) and far target (mov rax,imm64; jmp rax); oracle: seen == set for every argument/callee-saved register, stack word, rsp (= caller rsp - 8 with the caller's return address on top), returned == set, callee-saved and rsp restored (rax/r10/r11 on entry are not compared); every case non-trivial; distinct by (register file, form, target)")
    };
    let mut rec = Recorder::new(prop, engine, rule);
    rec.assumptions.push("x86-64 SysV ABI; assembly probes in vnative/src/probes.rs".into());
    let n = cases(8000, 400_000);
    run_sharded(&mut rec, if prop == "C10" { 10 } else { 13 }, n, shards(), "probe", Value::Null, Duration::from_secs(20), move || probe_case::strategy(modes.clone()), probe_case::judge, |c| json!({"ProbeCase": c}));
    if prop == "C13" {
        let l = rec.classes.get("fake/long-trampoline").copied().unwrap_or(0);
        let s = rec.classes.get("fake/short-trampoline").copied().unwrap_or(0);
        if rec.violations.is_empty() && (l * 10 < (l + s) * 3 || s * 10 < (l + s) * 3) {
            rec.inconclusive.push(format!("trampoline forms unbalanced: long {l} short {s} (each must be >= 30%)"));
        }
    }
    rec.finish(&out_path())
}

fn cmd_shapes(prop: &str) -> i32 {
    let mut rec = Recorder::new(prop, "n-shapes", "N: 10 Rust-level signature shapes (12 integers; 10 doubles; 13 mixed int/float with f32 result; 48-byte aggregate by value with [u64; 8] returned through the hidden slot; u128; scalar pair; extern \"C\" with 8 integers + 9 doubles; extern \"C\" aggregate in and out; references with an Option result; small integers with i128) x generated argument values x {real original: near fake, rel32 trampoline | synthetic original in a far arena: long trampoline}; oracle (differential): result of calling the faked function == result of calling the fake directly with the same arguments (the fake folds every argument into its result), original body not run; every case non-trivial; distinct by (shape, form, values)");
    let n = cases(4000, 400_000);
    run_sharded(&mut rec, 131, n, shards(), "shape", Value::Null, Duration::from_secs(20), shapes::strategy, shapes::judge, |c| json!({"ShapeCase": c}));
    rec.finish(&out_path())
}

fn cmd_layout(prop: &str) -> i32 {
    let mut rec = Recorder::new(prop, "n-layout", "N: generated (target address incl. below 128 MiB where the search window is clipped at zero, in-page offset) x neighbourhood layout {kernel; full; full except one free page at offset -R-1..R+1 pages incl. the extreme pages; sparse set of free pages} x behaviour of an occupied hint {far fallback like Linux; MAP_FAILED; another in-range free page} x realisation {interposer layout model; real kernel with a PROT_NONE reservation and punched holes}; oracle: success => entry decodes to a branch into the one mapping kept, every other mapping obtained during the search was given back with its own address and a covering length, call reaches the fake, drop releases it; panic => target untouched and nothing left mapped; no foreign or duplicate munmap ever; non-trivial = first attempt did not succeed, or the free page is one of the extreme pages, or the window is clipped; distinct by (target, layout, fallback, realisation, outcome)");
    rec.assumptions.push("x86-64: rel32 reach (+/-2 GiB) exceeds the +/-128 MiB search window, so `within reach` is decided by decoding the entry branch to the kept mapping; finite-reach behaviour (AArch64 B) is decided in simulation (engine s2-arm64)".into());
    let n = cases(1600, 100_000);
    run_sharded(&mut rec, 11, n, shards(), "layout", Value::Null, Duration::from_secs(120), layout::strategy, layout::judge, |c| json!({"LayoutCase": c}));
    rec.finish(&out_path())
}

fn cmd_times(prop: &str) -> i32 {
    let c07 = prop == "C07";
    let rule = if c07 {
        "N: generated sequences of 2..8 injector lifetimes that evaluate the same fake!(..., times: N) expression (4 call sites: when+returns+times, returns+times, unit assign+times, when+assign+returns+times; N and the calls per lifetime generated, N changing between lifetimes); oracle (metamorphic): every lifetime's per-call outcomes and exit verdict equal those of a process in which it is the only lifetime (reference model counting from zero); non-trivial = lifetime at a site that an earlier lifetime already used and that absorbed >= 1 call there; distinct by (position, lifetime)"
    } else {
        "N: generated N in {0..8, 64, 300}, k in 0..N+2 matching calls interleaved with 0..3 calls failing `when`, split over 1..16 threads released by a barrier, every call caught individually, exit normal or unwinding; oracle (reference model, order-free across threads): exactly min(k,N) matching calls return with the fake's freshly evaluated value and max(0,k-N) panic `more times than expected`; calls failing `when` panic `unexpected arguments` and are not counted; scope exit panics iff k != N and not unwinding, naming N and k; non-trivial = k >= 1 and (k > N or a non-matching call or >= 2 threads); distinct by lifetime"
    };
    let mut rec = Recorder::new(prop, "n-times", rule);
    FRESH_WORKER_PER_CASE.store(true, std::sync::atomic::Ordering::SeqCst);
    rec.notes.push("every case runs in a fresh worker process: the counters live in statics of the fake! call sites, so a case is a complete process history and a shrunk failure replays from its file".into());
    let n = cases(3000, 200_000);
    run_sharded(&mut rec, if c07 { 7 } else { 6 }, n, shards(), "times", Value::Null, Duration::from_secs(60), move || times::strategy(c07), times::judge, |c| json!({"TimesCase": c}));
    rec.finish(&out_path())
}

fn cmd_panic(prop: &str) -> i32 {
    let mut rec = Recorder::new(prop, "n-panics", "N: generated scripted test bodies (0..7 Install{target, times: N | plain} / Call steps over 3 targets) with exactly one panic source placed at a generated position 0..=len (every position reachable; shrunk towards 0), source in {user panic!, fake rejecting its arguments, over-called fake, refused install: signature mismatch / null pointer / boolean on non-bool / unchecked-checked mix / async output mismatch, allocation failure (every mmap fails), mprotect failure}, optionally caught inside the scope so that exit-time verification fires afterwards; 1..5 consecutive lifetimes per case and many per process, then a fresh thread creates an injector, installs, calls, drops under a deadline; oracle (script model): panics raised == panics predicted (one per source, plus one exit verification iff an unsatisfied expectation is pending and the scope is not unwinding), no abort, all functions byte-identical after the unwind, refused target unwritten at the moment of the panic, follow-up injector works; non-trivial = panic while >= 1 fake is installed; distinct by (source, position, caught, pending satisfied/unsatisfied)");
    rec.assumptions.push("faults injected during *restoration* and panics inside extern \"C\"/\"system\" fakes (abort by language rule) are excluded by construction".into());
    let n = cases(6000, 160_000);
    run_sharded(&mut rec, 5, n, shards(), "panic", Value::Null, Duration::from_secs(120), panics::strategy, panics::judge, |c| json!({"PanicCase": c}));
    rec.finish(&out_path())
}

fn cmd_threads(prop: &str) -> i32 {
    let mut rec = Recorder::new(prop, "n-threads", "N: generated scripts for 2..8 real threads (1..12 ops each: Injector{install a thread-specific fake on the shared function, n calls, exit by drop or panic} | Preventer{n calls, exit by drop or panic} | Spin) released by a barrier, plus a generated pause plan (up to 4 (interposed call kind, ordinal) points at which the thread inside an installation or inside the injector's drop waits up to 0.1-2 ms or until another thread reports an acquisition); oracle: measured holders <= 1 at all times (measured period is a subset of the true one), a preventer sees only the original value, injector t sees only its own fake, no acquisition/release panics, all scripts finish (a proven futex deadlock is a violation, any other overrun inconclusive); non-trivial = run with >= 1 contended acquisition and both guard kinds and both exit paths; distinct by scripts");
    rec.assumptions.push("schedules are sampled (OS scheduler + widened windows), not enumerated".into());
    // one long hold first (generated pauses are milliseconds; a waiter that gives up or falls
    // through after a while needs a holder that stays that long): 3.5 s, in the thorough tier 35 s
    {
        use threads::{TOp, ThreadCase};
        let ms = if vcommon::tier() == vcommon::Tier::Thorough { 35_000u16 } else { 3_500u16 };
        let fixed = ThreadCase {
            scripts: vec![
                vec![TOp::PreventerHold { ms }],
                vec![TOp::Spin(300), TOp::Injector { calls: 2, exit_panic: false }, TOp::Preventer { calls: 2, exit_panic: false }],
                vec![TOp::Spin(350), TOp::Preventer { calls: 2, exit_panic: false }, TOp::Injector { calls: 1, exit_panic: true }],
            ],
            pauses: vec![],
            pause_us: 0,
        };
        rec.exhaustive_parts.push(format!("one fixed scenario with a preventer held for {ms} ms while two threads wait"));
        run_sharded(&mut rec, 4, 1, 1, "threads", Value::Null, Duration::from_secs(80), move || proptest::strategy::Just(fixed.clone()), threads::judge, |c| json!({"ThreadCase": c}));
    }
    let n = cases(1600, 24_000);
    if rec.violations.is_empty() {
        run_sharded(&mut rec, 4, n, shards().min(4), "threads", Value::Null, Duration::from_secs(40), threads::strategy, threads::judge, |c| json!({"ThreadCase": c}));
    }
    rec.finish(&out_path())
}

fn cmd_async(prop: &str) -> i32 {
    let mut rec = Recorder::new(prop, "n-async", "N: family of 11 async functions (free and method; by-value and by-reference parameters; outputs (), u32 x3 incl. a method, u64, bool, String x2, Vec<u8>, (u64, String), a 264-byte struct returned through memory; every original bumps a counter and awaits a yield-once future) driven by a hand-written single-poll executor; generated histories of Fake(i, v) / Await(i, arg, executor thread 0..3) / re-Fake / EndLifetime, then every function awaited once more; oracle (model): while faked the first poll is Ready with the latest fake's value, the value expression is evaluated exactly once per await, the original body does not run; unfaked functions (incl. same-output-type siblings) yield their original value in two polls; after the lifetime all are original; non-trivial = history with an await of a same-output-type sibling of a faked function, a re-fake, the large by-memory output, or >= 2 lifetimes; distinct by history");
    let n = cases(6000, 160_000);
    run_sharded(&mut rec, 14, n, shards(), "async", Value::Null, Duration::from_secs(60), asyncs::strategy, asyncs::judge, |c| json!({"AsyncCase": c}));
    rec.finish(&out_path())
}

fn cmd_sig(prop: &str) -> i32 {
    if prop == "C10" {
        let mut rec = Recorder::new(prop, "n-boolsig", "N: generated signature strings (type grammar rendered in type_name style; return types biased to renderings that merely end in `-> bool`: nested fn pointers, &dyn Fn() -> bool, raw pointers to fn types, and look-alikes Option<bool>, (bool,), [bool; 1], &bool) passed through FuncPtr::new + will_return_boolean(v); oracle (from the generated structure, never by parsing): accepted iff the top-level return type is exactly bool; refusal = panic with no interposed call and no byte changed; accepted => the call returns v; non-trivial = return type textually ending in `-> bool` without being bool, or bool behind >= 3 parameters; distinct by (string, value)");
        let n = cases(12_000, 600_000);
        run_sharded(&mut rec, 110, n, shards(), "boolsig", Value::Null, Duration::from_secs(20), sigs::bool_case_strategy, sigs::judge_bool, |c| json!({"BoolCase": c}));
        return rec.finish(&out_path());
    }
    let mut rec = Recorder::new(prop, "n-sigstrings", "N: generated function-pointer type structures (arity 0-6; integers, floats, bool, char, (), &T/&mut T/*const T/*mut T, &str, slices, arrays, tuples, Option, nominal types, nested fn pointers, &dyn Fn; safe/unsafe; ABI Rust/C/system) rendered to strings; pair = (sigA, sigA with exactly one grammar mutation: arity +/-1, one parameter, return type, &<->&mut, unsafety, ABI; or identical; or null pointer; or checked x unchecked mix) through FuncPtr::new + will_execute_raw / will_execute; oracle: identical => accepted and redirected; different => panic containing `Signature mismatch` / `Pointer must not be null` with zero interposed calls and no byte changed; non-trivial = judged one-component-different pairs plus identical pairs; distinct by (sigA, sigB, api)");
    let n = cases(16_000, 800_000);
    run_sharded(&mut rec, 9, n, shards(), "sig", Value::Null, Duration::from_secs(20), sigs::sig_case_strategy, sigs::judge_sig, |c| json!({"SigCase": c}));
    rec.finish(&out_path())
}

fn hist_setup(prop: &str) -> (hist::Opts, &'static str, &'static str) {
    match prop {
        "C03" => (hist::Opts { snapshots: true, logs: false, detail_limit: 0 }, "n-hist-snap", "N: generated install histories (targets with live neighbours at +/-16 bytes in synthetic arenas, last slot of a page, two instantiations of one generic, libc labs) with a full snapshot of every readable executable mapping before the first injector, after every step and after every scope exit; oracle: history invariant - differing bytes within 16 bytes of a named target or in a trampoline page the injector was seen to create, nothing else; bystanders return their own values; non-trivial = install on a target packed between live neighbours / generic instantiation / libc function; distinct by (lifetime, target, kind, address)"),
        "C12" => (hist::Opts { snapshots: false, logs: true, detail_limit: 6 }, "n-hist-cycles", "N: generated create/install/drop cycles (0..8 installs per cycle, mixed kinds, repeated targets, normal and unwinding exits), repeated up to thousands of times per case; oracle: history invariant on the interposed mmap/munmap log (every kept mapping released exactly once with a covering length, no foreign/duplicate munmap) and /proc/self/maps (executable anonymous pages after == before); non-trivial = cycle with >= 2 installs incl. a repeated target or two kinds; distinct by cycle shape"),
        "C17" => (hist::Opts { snapshots: false, logs: true, detail_limit: 0 }, "n-hist-flush", "N: generated install histories; observation points before/after every install and after scope exit; oracle: every byte that differs between two points (target entry, trampoline vs. fresh zero page, restored entry) lies in an interposed __clear_cache range issued in between whose captured content at that byte equals the final content; non-trivial = every install/restore with >= 1 changed byte; distinct by (lifetime, target, kind, address, trampoline)"),
        _ => (hist::Opts { snapshots: false, logs: false, detail_limit: 0 }, "n-hist", "N: generated histories of 1..4 injector lifetimes x 0..8 steps (Install{target with repetition, kind raw/closure/fake!/boolean/unchecked, fake} | Call) over 9 real + 0..3 synthetic targets, exit normal or unwinding, many lifetimes per worker process; oracle: reference model (per-target stack: latest installation in effect while alive) + round trip (first 32 bytes of every target == pristine and original value after every lifetime); non-trivial = lifetime with >= 2 installs on one target, or >= 3 targets with >= 2 kinds, or unwinding exit with >= 1 install; distinct by lifetime content"),
    }
}

fn cmd_hist(prop: &str) -> i32 {
    let (opts, engine, rule) = hist_setup(prop);
    let mut rec = Recorder::new(prop, engine, rule);
    rec.assumptions.push("x86-64 Linux host; symbol interposition of mmap/munmap/mprotect/__clear_cache by the executable (calibrated at worker start)".into());
    let optv = serde_json::to_value(&opts).unwrap();
    match prop {
        "C03" => {
            let n = cases(800, 16_000);
            run_sharded(&mut rec, 3, n, shards(), "hist", optv, Duration::from_secs(120), || hist::strategy_all(3, 4, true, false, 0.08, 0.3), hist_judge::judge_c03, |c| json!({"HistCase": c, "opts": "C03"}));
        }
        "C12" => {
            let n = cases(1200, 12_000);
            let thorough = vcommon::tier() == vcommon::Tier::Thorough;
            run_sharded(&mut rec, 12, n, shards(), "hist", optv, Duration::from_secs(600), move || {
                use proptest::prelude::*;
                (hist::strategy_all(3, 8, false, false, 0.0, 0.25), if thorough { 1u32..=4000 } else { 1u32..=120 }, any::<bool>(), prop::collection::vec((prop_oneof![4 => Just(0u8), 1 => 1u8..=3], prop_oneof![4 => Just(0u8), 1 => 1u8..=6]), 3)).prop_map(|(mut c, r, many, faults)| {
                    c.repeat = if many { r } else { 1 + r % 4 };
                    // (one lifetime in five: somebody else maps a hinted page first; one in five:
                    // one of its mmap calls fails)
                    for (l, (race, fail)) in c.lifetimes.iter_mut().zip(faults) {
                        l.race_map = race;
                        l.mmap_fail = if race == 0 { fail } else { 0 };
                    }
                    c
                })
            }, hist_judge::judge_c12, |c| json!({"HistCase": c, "opts": "C12"}));
        }
        "C17" => {
            let n = cases(3200, 80_000);
            run_sharded(&mut rec, 17, n, shards(), "hist", optv, Duration::from_secs(60), || {
                use proptest::prelude::*;
                // (one lifetime in eight meets a failing munmap while its injector goes out of scope)
                (hist::strategy_full(2, 6, true, false, 0.08), prop::collection::vec(prop_oneof![7 => Just(0u8), 1 => 1u8..=2], 2)).prop_map(|(mut c, f)| {
                    for (l, v) in c.lifetimes.iter_mut().zip(f) {
                        l.munmap_fault = v;
                    }
                    c
                })
            }, hist_judge::judge_c17, |c| json!({"HistCase": c, "opts": "C17"}));
        }
        _ => {
            let n = cases(4000, 120_000);
            run_sharded(&mut rec, 2, n, shards(), "hist", optv, Duration::from_secs(60), || {
                use proptest::prelude::*;
                // one lifetime in six meets a failing munmap while its injector goes out of scope
                (hist::strategy_rw(4, 8, false, true), prop::collection::vec(prop_oneof![5 => Just(0u8), 1 => 1u8..=3], 4)).prop_map(|(mut c, f)| {
                    for (l, v) in c.lifetimes.iter_mut().zip(f) {
                        l.munmap_fault = v;
                    }
                    c
                })
            }, hist_judge::judge_c02, |c| json!({"HistCase": c, "opts": "C02"}));
        }
    }
    rec.finish(&out_path())
}

fn cmd_replay(path: &str) -> i32 {
    let txt = std::fs::read_to_string(path).expect("read replay");
    let v: Value = serde_json::from_str(&txt).expect("json");
    let prop = v["property"].as_str().unwrap_or("C00").to_string();
    let case = &v["case"];
    let mut rec = Recorder::new(&prop, "n-replay", "replay of one saved case (50 repetitions for scheduled cases)");
    let mut w = Worker::spawn("replay");
    let hello = w.hello.clone();
    let r = if let Some(seq) = case.get("Sequence").and_then(|s| s.as_array()) {
        // replay a whole worker-process history; the verdict is that of the last request
        let mut last: Result<(), String> = Ok(());
        for (k, req) in seq.iter().enumerate() {
            let ex = w.exec(req, Duration::from_secs(120));
            if k + 1 == seq.len() {
                let c = &req["case"];
                last = match req["op"].as_str().unwrap_or("") {
                    "hist" => {
                        let hc: hist::HistCase = serde_json::from_value(c.clone()).expect("HistCase");
                        match prop.as_str() {
                            "C03" => hist_judge::judge_c03(&mut rec, &hc, ex, &hello),
                            "C12" => hist_judge::judge_c12(&mut rec, &hc, ex, &hello),
                            "C17" => hist_judge::judge_c17(&mut rec, &hc, ex, &hello),
                            _ => hist_judge::judge_c02(&mut rec, &hc, ex, &hello),
                        }
                    }
                    "place" => judge_place(&mut rec, &serde_json::from_value(c.clone()).expect("PlaceCase"), ex, &hello),
                    "layout" => layout::judge(&mut rec, &serde_json::from_value(c.clone()).expect("LayoutCase"), ex, &hello),
                    "probe" => probe_case::judge(&mut rec, &serde_json::from_value(c.clone()).expect("ProbeCase"), ex, &hello),
                    "shape" => shapes::judge(&mut rec, &serde_json::from_value(c.clone()).expect("ShapeCase"), ex, &hello),
                    "sig" => sigs::judge_sig(&mut rec, &serde_json::from_value(c.clone()).expect("SigCase"), ex, &hello),
                    "boolsig" => sigs::judge_bool(&mut rec, &serde_json::from_value(c.clone()).expect("BoolCase"), ex, &hello),
                    "times" => times::judge(&mut rec, &serde_json::from_value(c.clone()).expect("TimesCase"), ex, &hello),
                    "panic" => panics::judge(&mut rec, &serde_json::from_value(c.clone()).expect("PanicCase"), ex, &hello),
                    "threads" => threads::judge(&mut rec, &serde_json::from_value(c.clone()).expect("ThreadCase"), ex, &hello),
                    "async" => asyncs::judge(&mut rec, &serde_json::from_value(c.clone()).expect("AsyncCase"), ex, &hello),
                    other => Err(format!("unknown op {other} in sequence")),
                };
            } else if let Exec::Died { .. } = ex {
                // an earlier request of the history killed the worker: that is the finding
                last = Err(format!("[{prop}/native/died-during-history] request {k} of the recorded history kills the worker"));
                break;
            }
        }
        last
    } else if let Some(c) = case.get("PlaceCase") {
        let c: place::PlaceCase = serde_json::from_value(c.clone()).expect("PlaceCase");
        let ex = w.exec(&json!({"op": "place", "case": c}), Duration::from_secs(30));
        judge_place(&mut rec, &c, ex, &hello)
    } else if let Some(c) = case.get("ProbeCase") {
        let c: probe_case::ProbeCase = serde_json::from_value(c.clone()).expect("ProbeCase");
        let ex = w.exec(&json!({"op": "probe", "case": c}), Duration::from_secs(30));
        probe_case::judge(&mut rec, &c, ex, &hello)
    } else if let Some(c) = case.get("ShapeCase") {
        let c: shapes::ShapeCase = serde_json::from_value(c.clone()).expect("ShapeCase");
        let ex = w.exec(&json!({"op": "shape", "case": c}), Duration::from_secs(30));
        shapes::judge(&mut rec, &c, ex, &hello)
    } else if let Some(c) = case.get("LayoutCase") {
        let c: layout::LayoutCase = serde_json::from_value(c.clone()).expect("LayoutCase");
        let ex = w.exec(&json!({"op": "layout", "case": c}), Duration::from_secs(120));
        layout::judge(&mut rec, &c, ex, &hello)
    } else if let Some(c) = case.get("TimesCase") {
        let c: times::TimesCase = serde_json::from_value(c.clone()).expect("TimesCase");
        let ex = w.exec(&json!({"op": "times", "case": c}), Duration::from_secs(60));
        times::judge(&mut rec, &c, ex, &hello)
    } else if let Some(c) = case.get("PanicCase") {
        let c: panics::PanicCase = serde_json::from_value(c.clone()).expect("PanicCase");
        let ex = w.exec(&json!({"op": "panic", "case": c}), Duration::from_secs(120));
        panics::judge(&mut rec, &c, ex, &hello)
    } else if let Some(c) = case.get("ThreadCase") {
        let c: threads::ThreadCase = serde_json::from_value(c.clone()).expect("ThreadCase");
        // schedules are not deterministic: a saved script is re-run 50 times
        let mut r = Ok(());
        for _ in 0..50 {
            let ex = w.exec(&json!({"op": "threads", "case": c}), Duration::from_secs(40));
            r = threads::judge(&mut rec, &c, ex, &hello);
            if r.is_err() {
                break;
            }
        }
        r
    } else if let Some(c) = case.get("AsyncCase") {
        let c: asyncs::AsyncCase = serde_json::from_value(c.clone()).expect("AsyncCase");
        let ex = w.exec(&json!({"op": "async", "case": c}), Duration::from_secs(60));
        asyncs::judge(&mut rec, &c, ex, &hello)
    } else if let Some(c) = case.get("SigCase") {
        let c: sigs::SigCase = serde_json::from_value(c.clone()).expect("SigCase");
        let ex = w.exec(&json!({"op": "sig", "case": c}), Duration::from_secs(30));
        sigs::judge_sig(&mut rec, &c, ex, &hello)
    } else if let Some(c) = case.get("BoolCase") {
        let c: sigs::BoolCase = serde_json::from_value(c.clone()).expect("BoolCase");
        let ex = w.exec(&json!({"op": "boolsig", "case": c}), Duration::from_secs(30));
        sigs::judge_bool(&mut rec, &c, ex, &hello)
    } else if let Some(c) = case.get("HistCase") {
        let c: hist::HistCase = serde_json::from_value(c.clone()).expect("HistCase");
        let (opts, _, _) = hist_setup(&prop);
        let ex = w.exec(&json!({"op": "hist", "case": c, "opts": opts}), Duration::from_secs(600));
        match prop.as_str() {
            "C03" => hist_judge::judge_c03(&mut rec, &c, ex, &hello),
            "C12" => hist_judge::judge_c12(&mut rec, &c, ex, &hello),
            "C17" => hist_judge::judge_c17(&mut rec, &c, ex, &hello),
            _ => hist_judge::judge_c02(&mut rec, &c, ex, &hello),
        }
    } else {
        eprintln!("unknown case kind in {path}");
        return 2;
    };
    match r {
        Ok(()) => {
            println!("replay: property {prop} holds on this case (known hits {:?}, counters {:?}, inconclusive {:?})", rec.known_hits, rec.counters, rec.inconclusive);
            if rec.inconclusive.is_empty() { 0 } else { 2 }
        }
        Err(m) => {
            println!("replay: {m}");
            println!("VIOLATION property={prop} replay={path}");
            1
        }
    }
}

fn main() {
    let args: Vec<String> = std::env::args().collect();
    let cmd = args.get(1).map(|s| s.as_str()).unwrap_or("");
    let prop = arg_value("--property");
    let code = match cmd {
        "worker" => worker::main(),
        "place" => cmd_place(prop.as_deref().unwrap_or("C01")),
        "hist" => cmd_hist(prop.as_deref().unwrap_or("C02")),
        "probe" => cmd_probe(prop.as_deref().unwrap_or("C13")),
        "sig" => cmd_sig(prop.as_deref().unwrap_or("C09")),
        "async" => cmd_async(prop.as_deref().unwrap_or("C14")),
        "threads" => cmd_threads(prop.as_deref().unwrap_or("C04")),
        "panic" => cmd_panic(prop.as_deref().unwrap_or("C05")),
        "times" => cmd_times(prop.as_deref().unwrap_or("C06")),
        "layout" => cmd_layout(prop.as_deref().unwrap_or("C11")),
        "shapes" => cmd_shapes(prop.as_deref().unwrap_or("C13")),
        "replay" => cmd_replay(args.get(2).expect("replay <file>")),
        "calibrate" => {
            worker::install_panic_hook();
            println!("{}", worker::calibrate());
            0
        }
        _ => {
            eprintln!("usage: vnative place|history|...|replay <file> [--property ID] [--out file]");
            2
        }
    };
    std::process::exit(code);
}
