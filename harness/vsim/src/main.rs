//! vsim — engines S1/S2: the repository's unmodified arch-specific sources compiled on the host
//! against simulated memory, driven by proptest generators and exhaustive sub-sweeps, judged by
//! independent decoders.  See /verif/DESIGN.md §2.2.  Features `s1` / `s2` can be built alone
//! when a tree breaks the other (the missing engine then reports "inconclusive").

#[cfg(feature = "s1")]
mod s1cmds;

use serde_json::Value;
use vcommon::{arg_value, Recorder};
use vsim::selftest;

fn cmd_replay(path: &str) -> i32 {
    vsim::sut::quiet_panics();
    let txt = std::fs::read_to_string(path).expect("read replay file");
    let v: Value = serde_json::from_str(&txt).expect("replay json");
    let prop = v["property"].as_str().unwrap_or("C00").to_string();
    let case = &v["case"];
    let mut rec = Recorder::new(&prop, "replay", "replay of one saved case");
    let r: Result<(), String> = replay_case(&mut rec, &prop, case);
    match r {
        Ok(()) => {
            println!("replay: property {prop} holds on this case (known-finding hits: {:?})", rec.known_hits);
            0
        }
        Err(m) if m.starts_with("unavailable:") => {
            eprintln!("{m}");
            2
        }
        Err(m) => {
            println!("replay: {m}");
            println!("VIOLATION property={prop} replay={path}");
            1
        }
    }
}

fn replay_case(rec: &mut Recorder, prop: &str, case: &Value) -> Result<(), String> {
    #[cfg(feature = "s1")]
    {
        use vsim::s1::*;
        if let Some(c) = case.get("A64Case") {
            let c: A64Case = serde_json::from_value(c.clone()).map_err(|e| format!("unavailable: {e}"))?;
            return a64_check(rec, &c);
        }
        if let Some(c) = case.get("ArmCase") {
            let c: ArmCase = serde_json::from_value(c.clone()).map_err(|e| format!("unavailable: {e}"))?;
            return arm_check(rec, &c);
        }
        if let Some(c) = case.get("X86Case") {
            let c: X86Case = serde_json::from_value(c.clone()).map_err(|e| format!("unavailable: {e}"))?;
            return x86_check(rec, prop, &c);
        }
    }
    #[cfg(feature = "s2")]
    {
        if case.get("S2Case").is_some() {
            return vsim::s2::replay(rec, prop, case);
        }
    }
    let _ = (rec, prop);
    Err(format!("unavailable: this vsim build cannot replay {case}"))
}

fn main() {
    let args: Vec<String> = std::env::args().collect();
    let cmd = args.get(1).map(|s| s.as_str()).unwrap_or("");
    let prop = arg_value("--property");
    let code = match cmd {
        #[cfg(feature = "s1")]
        "arm64" => s1cmds::cmd_arm64(prop.as_deref().unwrap_or("C15")),
        #[cfg(feature = "s1")]
        "arm" => s1cmds::cmd_arm(prop.as_deref().unwrap_or("C16")),
        #[cfg(feature = "s1")]
        "amd64" => s1cmds::cmd_amd64(prop.as_deref().unwrap_or("C01")),
        #[cfg(feature = "s2")]
        "s2" => vsim::s2::cmd(prop.as_deref().unwrap_or("C11")),
        "selftest" => selftest::cmd(),
        "replay" => cmd_replay(args.get(2).expect("replay <file>")),
        "arm64" | "arm" | "amd64" | "s2" => {
            eprintln!("vsim: engine `{cmd}` is not part of this build (its sources do not compile against this tree)");
            2
        }
        _ => {
            eprintln!("usage: vsim arm64|arm|amd64|s2|selftest|replay ... [--property ID] [--modes fn,bool] [--out file]");
            2
        }
    };
    std::process::exit(code);
}
