//! Assembly probes for the calling-convention checks (C13, C10).
//!
//!  * `probe_call(ctx)`   loads a generated register file (6 integer argument registers,
//!                        xmm0-7, rbx/rbp/r12-r15, N stack words), calls through a pointer and
//!                        stores everything it can see after the return.
//!  * `probe_fake`        a "fake" that stores everything it sees on entry (argument registers,
//!                        callee-saved registers, rsp, the return address on top of the stack,
//!                        16 stack words, xmm0-7), loads generated return registers
//!                        (rax, rdx, xmm0, xmm1) and returns.
//!  * `probe_orig`        an "original" whose only effect is to bump a counter.

use proptest::prelude::*;
use serde::{Deserialize, Serialize};

#[repr(C)]
#[derive(Clone, Debug)]
pub struct Ctx {
    pub target: u64,        // 0x000
    pub args: [u64; 6],     // 0x008 rdi rsi rdx rcx r8 r9
    pub callee: [u64; 6],   // 0x038 rbx rbp r12 r13 r14 r15
    pub nstack: u64,        // 0x068
    pub stack: [u64; 16],   // 0x070
    pub xmm: [[u64; 2]; 8], // 0x0F0
    // after return
    pub out_rax: u64,            // 0x170
    pub out_rdx: u64,            // 0x178
    pub out_xmm0: [u64; 2],      // 0x180
    pub out_xmm1: [u64; 2],      // 0x190
    pub out_callee: [u64; 6],    // 0x1A0
    pub out_rsp_delta: u64,      // 0x1D0
    pub out_stack: [u64; 16],    // 0x1D8
    pub scratch_rsp: u64,        // 0x258
    pub r10: u64,                // 0x260 static chain register as set by the caller
    pub wide: u64,               // 0x268 != 0: the CPU has AVX, ymm0-7 carry 256-bit arguments
    pub ymm_hi: [[u64; 2]; 8],   // 0x270 bits 128..255 of ymm0-7 as set by the caller
    pub out_ymm0_hi: [u64; 2],   // 0x2F0 bits 128..255 of ymm0 after the return
}

#[repr(C)]
#[derive(Clone, Debug)]
pub struct FakeRec {
    pub args: [u64; 6],     // 0x000
    pub callee: [u64; 6],   // 0x030
    pub rsp: u64,           // 0x060
    pub ret_addr: u64,      // 0x068
    pub stack: [u64; 16],   // 0x070
    pub xmm: [[u64; 2]; 8], // 0x0F0
    // values to return
    pub ret_rax: u64,        // 0x170
    pub ret_rdx: u64,        // 0x178
    pub ret_xmm0: [u64; 2],  // 0x180
    pub ret_xmm1: [u64; 2],  // 0x190
    pub hits: u64,           // 0x1A0
    pub r10: u64,            // 0x1A8 static chain register seen on entry
    pub rflags: u64,         // 0x1B0 flags seen on entry
    pub wide: u64,           // 0x1B8
    pub ymm_hi: [[u64; 2]; 8], // 0x1C0 bits 128..255 of ymm0-7 seen on entry
    pub ret_ymm0_hi: [u64; 2], // 0x240 upper half of a 256-bit return value
}

#[no_mangle]
pub static mut PROBE_CTX_PTR: u64 = 0;
#[no_mangle]
pub static mut PROBE_REC_PTR: u64 = 0;
#[no_mangle]
pub static mut PROBE_ORIG_HITS: u64 = 0;
#[no_mangle]
pub static mut PROBE_RET_SITE: u64 = 0;

extern "C" {
    pub fn probe_call(ctx: *mut Ctx);
    pub fn probe_fake();
    pub fn probe_orig();
    pub fn probe_orig2();
}

core::arch::global_asm!(
    r#"
    .text
    .p2align 4
    .globl probe_call
probe_call:
    push rbx
    push rbp
    push r12
    push r13
    push r14
    push r15
    push rdi
    mov r11, rdi
    mov [rip + PROBE_CTX_PTR], rdi
    mov rcx, [r11 + 0x68]
    mov rax, rcx
    and rax, 1
    shl rax, 3
    sub rsp, rax
    lea rdx, [r11 + 0x70]
2:
    test rcx, rcx
    jz 3f
    dec rcx
    push qword ptr [rdx + rcx*8]
    jmp 2b
3:
    mov [r11 + 0x258], rsp
    movdqu xmm0, [r11 + 0x0F0]
    movdqu xmm1, [r11 + 0x100]
    movdqu xmm2, [r11 + 0x110]
    movdqu xmm3, [r11 + 0x120]
    movdqu xmm4, [r11 + 0x130]
    movdqu xmm5, [r11 + 0x140]
    movdqu xmm6, [r11 + 0x150]
    movdqu xmm7, [r11 + 0x160]
    cmp qword ptr [r11 + 0x268], 0
    je 8f
    vinsertf128 ymm0, ymm0, [r11 + 0x270], 1
    vinsertf128 ymm1, ymm1, [r11 + 0x280], 1
    vinsertf128 ymm2, ymm2, [r11 + 0x290], 1
    vinsertf128 ymm3, ymm3, [r11 + 0x2A0], 1
    vinsertf128 ymm4, ymm4, [r11 + 0x2B0], 1
    vinsertf128 ymm5, ymm5, [r11 + 0x2C0], 1
    vinsertf128 ymm6, ymm6, [r11 + 0x2D0], 1
    vinsertf128 ymm7, ymm7, [r11 + 0x2E0], 1
8:
    mov rbx, [r11 + 0x38]
    mov rbp, [r11 + 0x40]
    mov r12, [r11 + 0x48]
    mov r13, [r11 + 0x50]
    mov r14, [r11 + 0x58]
    mov r15, [r11 + 0x60]
    mov rdi, [r11 + 0x08]
    mov rsi, [r11 + 0x10]
    mov rdx, [r11 + 0x18]
    mov rcx, [r11 + 0x20]
    mov r8,  [r11 + 0x28]
    mov r9,  [r11 + 0x30]
    mov r10, [r11 + 0x260]
    mov rax, [r11 + 0x00]
    call rax
probe_call_ret_site:
    mov r11, [rip + PROBE_CTX_PTR]
    mov [r11 + 0x170], rax
    mov [r11 + 0x178], rdx
    movdqu [r11 + 0x180], xmm0
    movdqu [r11 + 0x190], xmm1
    cmp qword ptr [r11 + 0x268], 0
    je 9f
    vextractf128 [r11 + 0x2F0], ymm0, 1
    vzeroupper
9:
    mov [r11 + 0x1A0], rbx
    mov [r11 + 0x1A8], rbp
    mov [r11 + 0x1B0], r12
    mov [r11 + 0x1B8], r13
    mov [r11 + 0x1C0], r14
    mov [r11 + 0x1C8], r15
    mov rax, rsp
    sub rax, [r11 + 0x258]
    mov [r11 + 0x1D0], rax
    mov rsp, [r11 + 0x258]
    xor rcx, rcx
4:
    cmp rcx, 16
    jae 5f
    mov rax, [rsp + rcx*8]
    mov [r11 + 0x1D8 + rcx*8], rax
    inc rcx
    jmp 4b
5:
    mov rcx, [r11 + 0x68]
    lea rsp, [rsp + rcx*8]
    mov rax, rcx
    and rax, 1
    lea rsp, [rsp + rax*8]
    pop rdi
    pop r15
    pop r14
    pop r13
    pop r12
    pop rbp
    pop rbx
    ret

    .p2align 4
    .globl probe_ret_site_addr
probe_ret_site_addr:
    lea rax, [rip + probe_call_ret_site]
    ret

    .p2align 4
    .globl probe_fake
probe_fake:
    mov r11, [rip + PROBE_REC_PTR]
    mov [r11 + 0x00], rdi
    mov [r11 + 0x08], rsi
    mov [r11 + 0x10], rdx
    mov [r11 + 0x18], rcx
    mov [r11 + 0x20], r8
    mov [r11 + 0x28], r9
    mov [r11 + 0x30], rbx
    mov [r11 + 0x38], rbp
    mov [r11 + 0x40], r12
    mov [r11 + 0x48], r13
    mov [r11 + 0x50], r14
    mov [r11 + 0x58], r15
    mov [r11 + 0x60], rsp
    mov [r11 + 0x1A8], r10
    pushfq
    pop rax
    mov [r11 + 0x1B0], rax
    mov rax, [rsp]
    mov [r11 + 0x68], rax
    xor rcx, rcx
6:
    cmp rcx, 16
    jae 7f
    mov rax, [rsp + 8 + rcx*8]
    mov [r11 + 0x70 + rcx*8], rax
    inc rcx
    jmp 6b
7:
    movdqu [r11 + 0x0F0], xmm0
    movdqu [r11 + 0x100], xmm1
    movdqu [r11 + 0x110], xmm2
    movdqu [r11 + 0x120], xmm3
    movdqu [r11 + 0x130], xmm4
    movdqu [r11 + 0x140], xmm5
    movdqu [r11 + 0x150], xmm6
    movdqu [r11 + 0x160], xmm7
    cmp qword ptr [r11 + 0x1B8], 0
    je 10f
    vextractf128 [r11 + 0x1C0], ymm0, 1
    vextractf128 [r11 + 0x1D0], ymm1, 1
    vextractf128 [r11 + 0x1E0], ymm2, 1
    vextractf128 [r11 + 0x1F0], ymm3, 1
    vextractf128 [r11 + 0x200], ymm4, 1
    vextractf128 [r11 + 0x210], ymm5, 1
    vextractf128 [r11 + 0x220], ymm6, 1
    vextractf128 [r11 + 0x230], ymm7, 1
10:
    inc qword ptr [r11 + 0x1A0]
    mov rax, [r11 + 0x170]
    mov rdx, [r11 + 0x178]
    movdqu xmm0, [r11 + 0x180]
    movdqu xmm1, [r11 + 0x190]
    cmp qword ptr [r11 + 0x1B8], 0
    je 11f
    vinsertf128 ymm0, ymm0, [r11 + 0x240], 1
11:
    ret

    .p2align 4
    .globl probe_orig
probe_orig:
    inc qword ptr [rip + PROBE_ORIG_HITS]
    mov eax, 0x0BAD0001
    ret
    .p2align 4
    nop
    .p2align 4
    .globl probe_orig2
probe_orig2:
    inc qword ptr [rip + PROBE_ORIG_HITS]
    mov eax, 0x0BAD0002
    ret
    .p2align 4
    nop
    .p2align 4
"#
);

extern "C" {
    fn probe_ret_site_addr() -> u64;
}
pub fn ret_site() -> u64 {
    unsafe { probe_ret_site_addr() }
}

// ------------------------------------------------------------------------------------------------
// generated register files

#[derive(Serialize, Deserialize, Clone, Debug, Hash, PartialEq, Eq)]
pub struct RegFile {
    pub args: [u64; 6],
    pub callee: [u64; 6],
    pub nstack: u8,
    pub stack: Vec<u64>,
    pub xmm: Vec<(u64, u64)>,
    pub ret_rax: u64,
    pub ret_rdx: u64,
    pub ret_xmm0: (u64, u64),
    pub ret_xmm1: (u64, u64),
}

fn word() -> impl Strategy<Value = u64> {
    prop_oneof![4 => any::<u64>(), 1 => Just(0u64), 1 => Just(u64::MAX), 1 => (0u64..256)]
}

pub fn regfile() -> impl Strategy<Value = RegFile> {
    (
        prop::array::uniform6(word()),
        prop::array::uniform6(word()),
        0u8..=16,
        prop::collection::vec(word(), 16),
        prop::collection::vec((word(), word()), 8),
        (word(), word(), (word(), word()), (word(), word())),
    )
        .prop_map(|(args, callee, nstack, stack, xmm, (ret_rax, ret_rdx, ret_xmm0, ret_xmm1))| RegFile { args, callee, nstack, stack, xmm, ret_rax, ret_rdx, ret_xmm0, ret_xmm1 })
}

pub fn ctx_from(r: &RegFile, target: u64) -> Box<Ctx> {
    let mut c: Box<Ctx> = Box::new(unsafe { std::mem::zeroed() });
    c.target = target;
    c.args = r.args;
    c.callee = r.callee;
    c.nstack = r.nstack.min(16) as u64;
    for i in 0..16 {
        c.stack[i] = r.stack.get(i).copied().unwrap_or(0);
    }
    for i in 0..8 {
        let x = r.xmm.get(i).copied().unwrap_or((0, 0));
        c.xmm[i] = [x.0, x.1];
    }
    // (derived, so that earlier replay files keep their meaning)
    c.r10 = (r.args[0] ^ r.callee[0]).rotate_left(17) ^ 0x5A5A_1010_A5A5_0101;
    c.wide = wide() as u64;
    for i in 0..8 {
        c.ymm_hi[i] = ymm_hi_of(c.xmm[i], i as u64);
    }
    c
}

/// 256-bit vector arguments exist on this machine (ymm0-7 carry `__m256` arguments at full width)
pub fn wide() -> bool {
    std::arch::is_x86_feature_detected!("avx")
}

/// upper half of a 256-bit register, derived from its generated lower half (so that earlier
/// replay files keep their meaning); never zero
pub fn ymm_hi_of(lo: [u64; 2], i: u64) -> [u64; 2] {
    [lo[0].rotate_left(29) ^ 0xC3C3_0000_3C3C_1111u64.wrapping_add(i), (lo[1] ^ lo[0]).rotate_left(7) | 1]
}

pub fn rec_from(r: &RegFile) -> Box<FakeRec> {
    let mut f: Box<FakeRec> = Box::new(unsafe { std::mem::zeroed() });
    f.ret_rax = r.ret_rax;
    f.ret_rdx = r.ret_rdx;
    f.ret_xmm0 = [r.ret_xmm0.0, r.ret_xmm0.1];
    f.ret_xmm1 = [r.ret_xmm1.0, r.ret_xmm1.1];
    f.wide = wide() as u64;
    f.ret_ymm0_hi = ymm_hi_of(f.ret_xmm0, 8);
    f
}
