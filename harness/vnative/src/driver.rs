//! Driver side: owns the worker child processes.  A case is sent as one JSON line; the worker
//! answers with one JSON line.  A worker that dies while executing a case makes that case a
//! failing case (the signal is the observation); a worker that does not answer within the
//! watchdog is killed and the case is *inconclusive*, never a violation.

use serde_json::Value;
use std::io::{BufRead, BufReader, Write};
use std::os::unix::process::ExitStatusExt;
use std::process::{Child, ChildStdin, Command, Stdio};
use std::sync::mpsc::{channel, Receiver, RecvTimeoutError};
use std::time::Duration;

pub enum Exec {
    Obs(Value),
    Died { signal: Option<i32>, code: Option<i32>, phase: String, stderr_tail: String },
    Timeout,
}

pub struct Worker {
    child: Child,
    stdin: ChildStdin,
    rx: Receiver<String>,
    stderr_path: std::path::PathBuf,
    pub spawned: u64,
    pub label: String,
    pub last_phase: String,
    pub hello: Value,
    /// requests sent to this worker *process* since it was spawned (bounded): a failure that
    /// depends on what earlier cases left behind in the process is reproduced by replaying them
    pub history: Vec<String>,
}

impl Worker {
    pub fn spawn(label: &str) -> Worker {
        let exe = std::env::current_exe().expect("current_exe");
        let dir = vcommon::verif_dir().join("work").join("worker-logs");
        let _ = std::fs::create_dir_all(&dir);
        let stderr_path = dir.join(format!("{label}-{}.stderr", std::process::id()));
        let errf = std::fs::File::create(&stderr_path).expect("stderr file");
        let mut child = Command::new(exe)
            .arg("worker")
            .stdin(Stdio::piped())
            .stdout(Stdio::piped())
            .stderr(Stdio::from(errf))
            .spawn()
            .expect("spawn worker");
        let stdin = child.stdin.take().unwrap();
        let stdout = child.stdout.take().unwrap();
        let (tx, rx) = channel();
        std::thread::spawn(move || {
            let r = BufReader::new(stdout);
            for line in r.lines() {
                match line {
                    Ok(l) => {
                        if tx.send(l).is_err() {
                            break;
                        }
                    }
                    Err(_) => break,
                }
            }
        });
        let mut w = Worker { child, stdin, rx, stderr_path, spawned: 1, label: label.to_string(), last_phase: String::new(), hello: Value::Null, history: Vec::new() };
        // first line: calibration record
        if let Ok(l) = w.rx.recv_timeout(Duration::from_secs(60)) {
            w.hello = serde_json::from_str::<Value>(&l).map(|v| v["hello"].clone()).unwrap_or(Value::Null);
        }
        w
    }

    fn respawn(&mut self) {
        let _ = self.child.kill();
        let _ = self.child.wait();
        let n = self.spawned + 1;
        let label = self.label.clone();
        let phase = self.last_phase.clone();
        *self = Worker::spawn(&label);
        self.spawned = n;
        self.last_phase = phase;
    }

    /// Replace the worker by a fresh process (used by engines whose cases must be complete
    /// process histories, e.g. call counters that live in statics).
    pub fn retire(&mut self) {
        self.respawn();
    }

    fn stderr_tail(&self) -> String {
        let s = std::fs::read_to_string(&self.stderr_path).unwrap_or_default();
        let n = s.len();
        s[n.saturating_sub(1500)..].to_string()
    }

    pub fn stderr_tail_pub(&self) -> String {
        self.stderr_tail()
    }

    /// Execute one request.  After Died/Timeout a fresh worker is already running.
    pub fn exec(&mut self, req: &Value, timeout: Duration) -> Exec {
        // a worker that retired itself after the previous case (exit 77: it had left a real
        // target modified, which that case's judge has already seen) is replaced silently
        if let Ok(Some(st)) = self.child.try_wait() {
            if st.code() == Some(77) {
                self.respawn();
            }
        }
        let r = self.exec_once(req, timeout);
        if let Exec::Died { code: Some(77), .. } = r {
            // exit 77 is only ever taken *after* answering: this request was not processed
            return self.exec_once(req, timeout);
        }
        r
    }

    fn exec_once(&mut self, req: &Value, timeout: Duration) -> Exec {
        let line = serde_json::to_string(req).unwrap();
        if self.history.len() < 600 {
            self.history.push(line.clone());
        }
        if writeln!(self.stdin, "{line}").is_err() || self.stdin.flush().is_err() {
            // worker already gone (e.g. died after answering the previous case)
            let st = self.child.wait().ok();
            let tail = self.stderr_tail();
            self.respawn();
            return Exec::Died { signal: st.and_then(|s| s.signal()), code: st.and_then(|s| s.code()), phase: "between-cases".into(), stderr_tail: tail };
        }
        self.last_phase.clear();
        let deadline = std::time::Instant::now() + timeout;
        let pid = self.child.id();
        let mut phase_cpu0 = cpu_seconds(pid);
        let next = loop {
            let left = deadline.saturating_duration_since(std::time::Instant::now());
            match self.rx.recv_timeout(left.min(Duration::from_millis(1000))) {
                Ok(l) if l.starts_with("#phase ") => {
                    self.last_phase = l[7..].to_string();
                    phase_cpu0 = cpu_seconds(pid);
                    continue;
                }
                Err(RecvTimeoutError::Timeout) if !left.is_zero() && left > Duration::from_millis(1000) => {
                    if self.last_phase.starts_with("call") || self.last_phase.starts_with("await") {
                        if let (Some(a), Some(b)) = (phase_cpu0, cpu_seconds(pid)) {
                            if b - a >= SPIN_CPU_S {
                                let _ = self.child.kill();
                                let _ = self.child.wait();
                                let phase = self.last_phase.clone();
                                self.respawn();
                                // the worker burnt seconds of CPU inside one `call` phase (calling a
                                // function whose original and fakes are a handful of instructions)
                                // without finishing it: the patched code loops.  Unlike the
                                // wall-clock watchdog this does not depend on machine load, so it is
                                // reported like a crash of the call.
                                return Exec::Died { signal: None, code: None, phase: format!("{phase}-never-returns"), stderr_tail: format!("the call did not return: the worker consumed {:.1} s of CPU in this phase and was killed", b - a) };
                            }
                        }
                    }
                    continue;
                }
                other => break other,
            }
        };
        match next {
            Ok(l) => match serde_json::from_str::<Value>(&l) {
                Ok(v) => Exec::Obs(v),
                Err(e) => Exec::Obs(serde_json::json!({"harness_error": format!("bad json from worker: {e}: {l}")})),
            },
            Err(RecvTimeoutError::Timeout) => {
                let _ = self.child.kill();
                let _ = self.child.wait();
                self.respawn();
                Exec::Timeout
            }
            Err(RecvTimeoutError::Disconnected) => {
                let st = self.child.wait().ok();
                let tail = self.stderr_tail();
                let mut phase = self.last_phase.clone();
                if st.and_then(|s| s.code()) == Some(78) {
                    // the interposer stopped a placement search that made a million probes
                    phase = format!("{phase}-placement-search-does-not-terminate");
                }
                self.respawn();
                Exec::Died { signal: st.and_then(|s| s.signal()), code: st.and_then(|s| s.code()), phase, stderr_tail: tail }
            }
        }
    }
}

impl Drop for Worker {
    fn drop(&mut self) {
        let _ = self.child.kill();
        let _ = self.child.wait();
        let _ = std::fs::remove_file(&self.stderr_path);
    }
}

/// CPU seconds a `call` phase may burn before the call counts as never returning
pub const SPIN_CPU_S: f64 = 6.0;

/// user+system CPU time consumed so far by process `pid` (all threads), in seconds
fn cpu_seconds(pid: u32) -> Option<f64> {
    let s = std::fs::read_to_string(format!("/proc/{pid}/stat")).ok()?;
    let rest = &s[s.rfind(')')? + 1..];
    let f: Vec<&str> = rest.split_whitespace().collect();
    // after the command name: state is field 0, utime field 11, stime field 12
    let ut: f64 = f.get(11)?.parse().ok()?;
    let st: f64 = f.get(12)?.parse().ok()?;
    let hz = unsafe { libc::sysconf(libc::_SC_CLK_TCK) } as f64;
    Some((ut + st) / hz.max(1.0))
}

pub fn signal_name(s: i32) -> &'static str {
    match s {
        4 => "SIGILL",
        5 => "SIGTRAP",
        6 => "SIGABRT",
        7 => "SIGBUS",
        8 => "SIGFPE",
        9 => "SIGKILL",
        11 => "SIGSEGV",
        _ => "signal",
    }
}
