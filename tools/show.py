#!/usr/bin/env python3
import json,sys
d=json.load(open(sys.argv[1]))
print('evals',d['evaluations'],'nontriv',d['distinct_nontrivial'],'wall',round(d['wall_s'],2))
if '-c' in sys.argv: print('classes',json.dumps(d['classes'],indent=0))
print('counters',d['counters']);print('known_hits',d['known_hits']); print('inconclusive', d['inconclusive'][:3])
for v in d['violations'][:int(sys.argv[2]) if len(sys.argv)>2 and sys.argv[2].isdigit() else 2]: print('VIOL',v['signature'],v['message'][:2500]); print(json.dumps(v['case'])[:1500])
if '-s' in sys.argv: print(json.dumps(d['samples'][-1])[:3000])
