pub fn cmd() -> i32 { 2 }
