#!/bin/bash
# take_seed.sh <worktree-dir> <PROP> <name>: save the agent's SEED dir, confirm it in a fresh worktree,
# store it under /verif/seeded/<name>, then run the property's check against it.
set -u
wt=$1; prop=$2; name=$3
keep=/var/tmp/seeds-in/$name
rm -rf "$keep"; mkdir -p /var/tmp/seeds-in; cp -r "$wt/SEED" "$keep" || exit 2
rm -f "$keep"/run-*.txt "$keep"/*.patch 2>/dev/null
cd /verif
python3 tools/verify_seed.py "$name" "$keep" "$prop" 2>&1 | grep -E '"(confirmed|applies|suite_passes_with_change|demo_fails_with_change|demo_passes_without_change)"|PATCH DOES NOT|---' | tr '\n' ' '; echo
python3 tools/audit.py --seeded --only "$name" 2>&1 | grep "seeded/"
