#!/usr/bin/env python3-vt
"""Validates MANIFEST.json and every evidence file against the schemas in /root/.vp."""
import json, sys, glob, jsonschema
ok = True
ms = json.load(open('/root/.vp/MANIFEST.schema.json'))
es = json.load(open('/root/.vp/EVIDENCE.schema.json'))
try:
    m = json.load(open('/verif/MANIFEST.json')); jsonschema.validate(m, ms); print('MANIFEST valid:', len(m['checks']), 'checks,', len(m.get('not_applicable', [])), 'n/a')
except Exception as e:
    ok = False; print('MANIFEST INVALID', str(e)[:500])
for f in sorted(glob.glob('/verif/evidence/*.json')):
    try:
        e = json.load(open(f)); jsonschema.validate(e, es)
        print(f.split('/')[-1], 'valid', e['tier'], 'evals', e['coverage'].get('evaluations'), 'nontrivial', e['coverage'].get('distinct_nontrivial'), 'wall', e['wall_s'], 'viol', e.get('violations'))
    except Exception as ex:
        ok = False; print(f, 'INVALID', str(ex)[:500])
sys.exit(0 if ok else 1)
