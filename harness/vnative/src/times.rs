//! Call-count cases (C06 exact accounting incl. concurrent callers; C07 counting starts from
//! zero for every installation built by the same line of source).

use crate::driver::{signal_name, Exec};
use crate::interpose as ip;
use injectorpp::interface::injector::*;
use proptest::prelude::*;
use serde::{Deserialize, Serialize};
use serde_json::{json, Value};
use std::hint::black_box;
use std::sync::atomic::{AtomicU64, AtomicUsize, Ordering::SeqCst};
use vcommon::Recorder;

static TIMES: [AtomicUsize; 4] = [AtomicUsize::new(0), AtomicUsize::new(0), AtomicUsize::new(0), AtomicUsize::new(0)];
static WHEN_MIN: AtomicU64 = AtomicU64::new(1000);
static UNIT_HITS: AtomicU64 = AtomicU64::new(0);

#[inline(never)]
pub fn tt_a(a: u64) -> u64 {
    black_box(a)
}
#[inline(never)]
pub fn tt_b(a: u64) -> u64 {
    black_box(a ^ 1)
}
#[inline(never)]
pub fn tt_unit(a: u64) {
    black_box(a);
}
#[inline(never)]
pub fn tt_out(a: u64, out: &mut u64) -> u64 {
    *out = 1;
    black_box(a)
}

// Each helper evaluates the *same* fake! expression every time it is called: one line of
// source, one static counter.
fn site0() -> (FuncPtr, CallCountVerifier) {
    injectorpp::fake!(func_type: fn(a: u64) -> u64, when: a >= WHEN_MIN.load(SeqCst), returns: a * 2 + 1, times: TIMES[0].load(SeqCst))
}
fn site1() -> (FuncPtr, CallCountVerifier) {
    injectorpp::fake!(func_type: fn(a: u64) -> u64, returns: a + 7, times: TIMES[1].load(SeqCst))
}
fn site2() -> (FuncPtr, CallCountVerifier) {
    injectorpp::fake!(func_type: fn(a: u64) -> (), assign: { let _ = a; UNIT_HITS.fetch_add(1, SeqCst); }, times: TIMES[2].load(SeqCst))
}
fn site3() -> (FuncPtr, CallCountVerifier) {
    injectorpp::fake!(func_type: fn(a: u64, out: &mut u64) -> u64, when: a >= WHEN_MIN.load(SeqCst), assign: { *out = a + 3 }, returns: a, times: TIMES[3].load(SeqCst))
}

// Fakes without `times:` (one line of source each): installed before the counted one in the same
// injector (`tt_c`), or on top of it (the counted fake's own target).
static TIMES_R: [AtomicUsize; 4] = [AtomicUsize::new(0), AtomicUsize::new(0), AtomicUsize::new(0), AtomicUsize::new(0)];
#[inline(never)]
pub fn tt_c(a: u64) -> u64 {
    black_box(a ^ 2)
}
fn usite_c() -> (FuncPtr, CallCountVerifier) {
    injectorpp::fake!(func_type: fn(a: u64) -> u64, returns: a + 500)
}
/// the fake that supersedes the counted one on its own target: uncounted or counted
fn refake_pair(site: u8, counted: bool) -> (FuncPtr, CallCountVerifier) {
    match (site % N_SITES, counted) {
        (0, false) => injectorpp::fake!(func_type: fn(a: u64) -> u64, returns: a + 1000),
        (1, false) => injectorpp::fake!(func_type: fn(a: u64) -> u64, returns: a + 1000),
        (2, false) => injectorpp::fake!(func_type: fn(a: u64) -> (), assign: { let _ = a; UNIT_HITS.fetch_add(100, SeqCst); }),
        (_, false) => injectorpp::fake!(func_type: fn(a: u64, out: &mut u64) -> u64, assign: { *out = a + 5 }, returns: a + 1000),
        (0, true) => injectorpp::fake!(func_type: fn(a: u64) -> u64, returns: a + 1000, times: TIMES_R[0].load(SeqCst)),
        (1, true) => injectorpp::fake!(func_type: fn(a: u64) -> u64, returns: a + 1000, times: TIMES_R[1].load(SeqCst)),
        (2, true) => injectorpp::fake!(func_type: fn(a: u64) -> (), assign: { let _ = a; UNIT_HITS.fetch_add(100, SeqCst); }, times: TIMES_R[2].load(SeqCst)),
        (_, true) => injectorpp::fake!(func_type: fn(a: u64, out: &mut u64) -> u64, assign: { *out = a + 5 }, returns: a + 1000, times: TIMES_R[3].load(SeqCst)),
    }
}

pub const N_SITES: u8 = 4;

#[derive(Serialize, Deserialize, Clone, Debug, Hash, PartialEq, Eq)]
pub struct TLife {
    pub site: u8,
    pub n: u16,
    /// one entry per call: true = arguments satisfy `when`
    pub calls: Vec<bool>,
    pub threads: u8,
    pub exit_unwind: bool,
    /// a second counted fake (another site, another target) installed in the same lifetime:
    /// (site, n, number of matching calls made to it)
    #[serde(default)]
    pub second: Option<(u8, u8, u8)>,
    /// an uncounted `fake!` is installed on another function through the same injector *before*
    /// the counted one
    #[serde(default)]
    pub pre_uncounted: bool,
    /// after the calls, the counted fake's function is faked again through the same injector:
    /// (counted?, n2, number of calls made to the superseding fake).  The superseded fake keeps
    /// its expectation: it was installed with `times: n` and received k calls.
    #[serde(default)]
    pub refake: Option<(bool, u8, u8)>,
    /// matching calls made at the earliest possible moment: when the library flushes the entry
    /// it has just patched, i.e. before `will_execute` has returned (what a caller on another
    /// thread can do).  They are served by the fake, so they are calls of this installation.
    #[serde(default)]
    pub early: u8,
    /// the whole lifetime (set-up, calls, scope exit) runs from a fixture's `Drop` while the
    /// thread is unwinding from a failed test body (tear-down code that uses fakes).  No exit
    /// verdict can be raised there; installation and per-call accounting are as everywhere else.
    #[serde(default)]
    pub in_teardown: bool,
    /// after the calls, the SAME `fake!` line is evaluated and installed once more through the same
    /// injector, on the other function of the same type (sites 0 and 1 only), and that function
    /// receives this many matching calls: the new installation counts from zero although the
    /// earlier one, still alive, has absorbed calls.  (What the two verifiers say at scope exit
    /// about a counter they share is not judged.)
    #[serde(default)]
    pub again: Option<u8>,
}

#[derive(Serialize, Deserialize, Clone, Debug, Hash, PartialEq, Eq)]
pub struct TimesCase {
    pub lifetimes: Vec<TLife>,
    /// build every lifetime's (FuncPtr, verifier) pair up front (a table of fakes prepared by a
    /// set-up helper), install them later: counting must still start at the *installation*
    #[serde(default)]
    pub prebuilt: bool,
    /// after the sequential lifetimes: several threads run lifetimes of ONE call site back to
    /// back (the injector's global lock serialises them), every lifetime with the same
    /// `times: n` and k matching calls
    #[serde(default)]
    pub parallel: Option<ParSpec>,
}

#[derive(Serialize, Deserialize, Clone, Debug, Hash, PartialEq, Eq)]
pub struct ParSpec {
    pub threads: u8,
    pub rounds: u16,
    pub site: u8,
    pub n: u8,
    pub k: u8,
}

#[derive(Serialize, Deserialize, Clone, Debug, Default)]
pub struct ParObs {
    pub lifetimes: u64,
    /// lifetimes whose per-call outcomes were not "first min(k,n) return, the rest panic"
    pub wrong_calls: u64,
    /// lifetimes whose exit verdict was not "panic iff k != n"
    pub wrong_verdicts: u64,
    pub install_panics: u64,
    pub first_wrong: Option<String>,
}

#[derive(Serialize, Deserialize, Clone, Debug, Default)]
pub struct CallOut {
    pub matching: bool,
    pub arg: u64,
    pub value: Option<u64>,
    pub side: Option<u64>,
    pub panic: Option<String>,
}

#[derive(Serialize, Deserialize, Clone, Debug, Default)]
pub struct TLifeObs {
    /// outcomes of the calls to the second counted fake, if any
    #[serde(default)]
    pub second_outcomes: Vec<CallOut>,
    #[serde(default)]
    pub refake_outcomes: Vec<CallOut>,
    #[serde(default)]
    pub early_outcomes: Vec<CallOut>,
    #[serde(default)]
    pub again_outcomes: Vec<CallOut>,
    #[serde(default)]
    pub pre_value: Option<u64>,
    pub install_panic: Option<String>,
    /// single-threaded: in call order; multi-threaded: per thread, concatenated
    pub outcomes: Vec<CallOut>,
    pub exit_panic: Option<String>,
    pub panics_at_exit: u64,
    pub restored: bool,
}

#[derive(Serialize, Deserialize, Clone, Debug, Default)]
pub struct TimesObs {
    pub lifetimes: Vec<TLifeObs>,
    #[serde(default)]
    pub parallel: Option<ParObs>,
}

fn run_parallel(p: &ParSpec) -> ParObs {
    let site = p.site % N_SITES;
    let (n, k) = (p.n as usize, p.k as usize);
    TIMES[site as usize].store(n, SeqCst);
    let nt = p.threads.clamp(2, 8) as usize;
    let rounds = p.rounds as usize;
    let barrier = std::sync::Barrier::new(nt);
    let parts: Vec<ParObs> = std::thread::scope(|s| {
        let hs: Vec<_> = (0..nt)
            .map(|_| {
                let barrier = &barrier;
                s.spawn(move || {
                    let mut o = ParObs::default();
                    barrier.wait();
                    for r in 0..rounds {
                        let inj = std::panic::catch_unwind(|| {
                            ip::sut(|| {
                                let mut inj = InjectorPP::new();
                                let pair = match site {
                                    0 => site0(),
                                    1 => site1(),
                                    2 => site2(),
                                    _ => site3(),
                                };
                                match site {
                                    0 => inj.when_called(injectorpp::func!(fn (tt_a)(u64) -> u64)).will_execute(pair),
                                    1 => inj.when_called(injectorpp::func!(fn (tt_b)(u64) -> u64)).will_execute(pair),
                                    2 => inj.when_called(injectorpp::func!(fn (tt_unit)(u64))).will_execute(pair),
                                    _ => inj.when_called(injectorpp::func!(fn (tt_out)(u64, &mut u64) -> u64)).will_execute(pair),
                                }
                                inj
                            })
                        });
                        let Ok(inj) = inj else {
                            o.install_panics += 1;
                            continue;
                        };
                        o.lifetimes += 1;
                        let mut ok = true;
                        for i in 0..k {
                            let c = do_call(site, true, i as u64);
                            if c.panic.is_none() != (i < n) {
                                ok = false;
                            }
                        }
                        if !ok {
                            o.wrong_calls += 1;
                        }
                        let r2 = std::panic::catch_unwind(std::panic::AssertUnwindSafe(move || ip::sut(move || drop(inj))));
                        if r2.is_err() != (k != n) {
                            o.wrong_verdicts += 1;
                            if o.first_wrong.is_none() {
                                o.first_wrong = Some(format!("round {r}: scope exit {} although {k} matching calls were made against times: {n}", if r2.is_err() { format!("panicked ({})", crate::worker::last_panic()) } else { "did not panic".to_string() }));
                            }
                        }
                    }
                    o
                })
            })
            .collect();
        hs.into_iter().map(|h| h.join().unwrap_or_default()).collect()
    });
    let mut t = ParObs::default();
    for p in parts {
        t.lifetimes += p.lifetimes;
        t.wrong_calls += p.wrong_calls;
        t.wrong_verdicts += p.wrong_verdicts;
        t.install_panics += p.install_panics;
        if t.first_wrong.is_none() {
            t.first_wrong = p.first_wrong;
        }
    }
    t
}

/// the second counted fake lives on another site/target than the first
pub fn second_site(first: u8, raw: u8) -> u8 {
    let f = first % N_SITES;
    let s = raw % N_SITES;
    if s == f { (s + 1) % N_SITES } else { s }
}

fn has_when(site: u8) -> bool {
    matches!(site % N_SITES, 0 | 3)
}

fn do_call(site: u8, matching: bool, i: u64) -> CallOut {
    let min = WHEN_MIN.load(SeqCst);
    let arg = if matching || !has_when(site) { min + i } else { i % min };
    let mut out = CallOut { matching: matching || !has_when(site), arg, ..Default::default() };
    let r = std::panic::catch_unwind(|| match site % N_SITES {
        0 | 1 => (Some(if site % N_SITES == 0 { tt_a(arg) } else { tt_b(arg) }), None),
        2 => {
            tt_unit(arg);
            (None, None)
        }
        _ => {
            let mut side = 0u64;
            let v = tt_out(arg, &mut side);
            (Some(v), Some(side))
        }
    });
    match r {
        Ok((v, s)) => {
            out.value = v;
            out.side = s;
        }
        Err(_) => out.panic = Some(crate::worker::last_panic()),
    }
    out
}

pub fn execute(c: &TimesCase) -> TimesObs {
    let mut o = TimesObs::default();
    ip::plan_reset();
    let addrs = [tt_a as fn(u64) -> u64 as usize, tt_b as fn(u64) -> u64 as usize, tt_unit as fn(u64) as usize, tt_out as fn(u64, &mut u64) -> u64 as usize, tt_c as fn(u64) -> u64 as usize];
    let pristine: Vec<Vec<u8>> = addrs.iter().map(|a| crate::mem::read_direct(*a, 16)).collect();
    let build = |site: u8| match site % N_SITES {
        0 => site0(),
        1 => site1(),
        2 => site2(),
        _ => site3(),
    };
    let mut table: Vec<Option<(FuncPtr, CallCountVerifier)>> = vec![];
    if c.prebuilt {
        for l in &c.lifetimes {
            TIMES[(l.site % N_SITES) as usize].store(l.n as usize, SeqCst);
            table.push(Some(build(l.site)));
        }
    }
    let mut run_life = |li: usize, l: &TLife, o: &mut TimesObs| {
        let mut lo = TLifeObs::default();
        let site = l.site % N_SITES;
        TIMES[site as usize].store(l.n as usize, SeqCst);
        let pair = if c.prebuilt { table[li].take() } else { None };
        crate::worker::phase("install");
        let early_out: std::rc::Rc<std::cell::RefCell<Vec<CallOut>>> = Default::default();
        if l.early > 0 {
            let (eo, n_early) = (early_out.clone(), l.early.min(3) as u64);
            ip::set_flush_hook(addrs[site as usize], Box::new(move || {
                for i in 0..n_early {
                    eo.borrow_mut().push(do_call(site, true, 900 + i));
                }
            }));
        }
        let r = std::panic::catch_unwind(std::panic::AssertUnwindSafe(|| {
            ip::sut(|| {
                let mut inj = InjectorPP::new();
                if l.pre_uncounted {
                    inj.when_called(injectorpp::func!(fn (tt_c)(u64) -> u64)).will_execute(usite_c());
                }
                let pair = pair.unwrap_or_else(|| build(site));
                match site {
                    0 => inj.when_called(injectorpp::func!(fn (tt_a)(u64) -> u64)).will_execute(pair),
                    1 => inj.when_called(injectorpp::func!(fn (tt_b)(u64) -> u64)).will_execute(pair),
                    2 => inj.when_called(injectorpp::func!(fn (tt_unit)(u64))).will_execute(pair),
                    _ => inj.when_called(injectorpp::func!(fn (tt_out)(u64, &mut u64) -> u64)).will_execute(pair),
                }
                if let Some((s2, n2, _)) = l.second {
                    let s2 = second_site(site, s2);
                    TIMES[s2 as usize].store(n2 as usize, SeqCst);
                    let p2 = build(s2);
                    match s2 {
                        0 => inj.when_called(injectorpp::func!(fn (tt_a)(u64) -> u64)).will_execute(p2),
                        1 => inj.when_called(injectorpp::func!(fn (tt_b)(u64) -> u64)).will_execute(p2),
                        2 => inj.when_called(injectorpp::func!(fn (tt_unit)(u64))).will_execute(p2),
                        _ => inj.when_called(injectorpp::func!(fn (tt_out)(u64, &mut u64) -> u64)).will_execute(p2),
                    }
                }
                inj
            })
        }));
        ip::clear_flush_hook();
        lo.early_outcomes = early_out.borrow().clone();
        let mut inj = match r {
            Ok(i) => i,
            Err(_) => {
                lo.install_panic = Some(crate::worker::last_panic());
                o.lifetimes.push(lo);
                return;
            }
        };
        crate::worker::phase("calls");
        if l.pre_uncounted {
            lo.pre_value = std::panic::catch_unwind(|| tt_c(11)).ok();
        }
        let nthreads = l.threads.clamp(1, 16) as usize;
        if nthreads == 1 {
            for (i, m) in l.calls.iter().enumerate() {
                lo.outcomes.push(do_call(site, *m, i as u64));
            }
        } else {
            let calls = &l.calls;
            let barrier = std::sync::Barrier::new(nthreads);
            let outs: Vec<Vec<CallOut>> = std::thread::scope(|s| {
                let hs: Vec<_> = (0..nthreads)
                    .map(|t| {
                        let barrier = &barrier;
                        s.spawn(move || {
                            barrier.wait();
                            let mut v = vec![];
                            let mut i = t;
                            while i < calls.len() {
                                v.push(do_call(site, calls[i], i as u64));
                                i += nthreads;
                            }
                            v
                        })
                    })
                    .collect();
                hs.into_iter().map(|h| h.join().unwrap_or_default()).collect()
            });
            for v in outs {
                lo.outcomes.extend(v);
            }
        }
        if let Some((s2, _n2, k2)) = l.second {
            let s2 = second_site(site, s2);
            for i in 0..k2 {
                lo.second_outcomes.push(do_call(s2, true, 100 + i as u64));
            }
        }
        if let Some((counted, n2, k2)) = l.refake {
            crate::worker::phase("refake");
            TIMES_R[site as usize].store(n2 as usize, SeqCst);
            let r = std::panic::catch_unwind(std::panic::AssertUnwindSafe(|| {
                ip::sut(|| {
                    let p = refake_pair(site, counted);
                    match site {
                        0 => inj.when_called(injectorpp::func!(fn (tt_a)(u64) -> u64)).will_execute(p),
                        1 => inj.when_called(injectorpp::func!(fn (tt_b)(u64) -> u64)).will_execute(p),
                        2 => inj.when_called(injectorpp::func!(fn (tt_unit)(u64))).will_execute(p),
                        _ => inj.when_called(injectorpp::func!(fn (tt_out)(u64, &mut u64) -> u64)).will_execute(p),
                    }
                })
            }));
            if r.is_err() {
                lo.install_panic = Some(format!("re-fake: {}", crate::worker::last_panic()));
            } else {
                for i in 0..k2 {
                    lo.refake_outcomes.push(do_call(site, true, 200 + i as u64));
                }
            }
        }
        if let (Some(k2), true) = (l.again, site <= 1) {
            crate::worker::phase("same-line-again");
            let r = std::panic::catch_unwind(std::panic::AssertUnwindSafe(|| {
                ip::sut(|| {
                    let p = build(site);
                    if site == 0 {
                        inj.when_called(injectorpp::func!(fn (tt_b)(u64) -> u64)).will_execute(p)
                    } else {
                        inj.when_called(injectorpp::func!(fn (tt_a)(u64) -> u64)).will_execute(p)
                    }
                })
            }));
            if r.is_err() {
                lo.install_panic = Some(format!("same line again: {}", crate::worker::last_panic()));
            } else {
                let min = WHEN_MIN.load(SeqCst);
                for i in 0..k2 as u64 {
                    let arg = min + 300 + i;
                    let mut out = CallOut { matching: true, arg, ..Default::default() };
                    match std::panic::catch_unwind(|| if site == 0 { tt_b(arg) } else { tt_a(arg) }) {
                        Ok(v) => out.value = Some(v),
                        Err(_) => out.panic = Some(crate::worker::last_panic()),
                    }
                    lo.again_outcomes.push(out);
                }
            }
        }
        crate::worker::phase("drop");
        let before = crate::worker::PANIC_COUNT.load(SeqCst);
        if l.exit_unwind {
            let _ = std::panic::catch_unwind(std::panic::AssertUnwindSafe(move || {
                ip::sut(move || {
                    let _scope = inj;
                    panic!("user panic at the end of the scope");
                })
            }));
            lo.panics_at_exit = crate::worker::PANIC_COUNT.load(SeqCst) - before;
        } else {
            let r = std::panic::catch_unwind(std::panic::AssertUnwindSafe(move || ip::sut(move || drop(inj))));
            lo.panics_at_exit = crate::worker::PANIC_COUNT.load(SeqCst) - before;
            if r.is_err() {
                lo.exit_panic = Some(crate::worker::last_panic());
            }
        }
        lo.restored = addrs.iter().zip(&pristine).all(|(a, p)| &crate::mem::read_direct(*a, 16) == p);
        o.lifetimes.push(lo);
    };
    for (li, l) in c.lifetimes.iter().enumerate() {
        if l.in_teardown {
            struct TearDown<F: FnMut()>(F);
            impl<F: FnMut()> Drop for TearDown<F> {
                fn drop(&mut self) {
                    (self.0)()
                }
            }
            let _ = std::panic::catch_unwind(std::panic::AssertUnwindSafe(|| {
                let _fixture = TearDown(|| run_life(li, l, &mut o));
                panic!("the body of the test fails; the fixture's tear-down runs while the thread unwinds");
            }));
        } else {
            run_life(li, l, &mut o);
        }
    }
    drop(run_life);
    // never run the verifiers of pairs that were not installed
    for p in table.into_iter().flatten() {
        std::mem::forget(p);
    }
    if let Some(p) = &c.parallel {
        crate::worker::phase("parallel-lifetimes");
        o.parallel = Some(run_parallel(p));
    }
    o
}

pub fn strategy(c07_bias: bool) -> impl Strategy<Value = TimesCase> {
    let n = prop_oneof![6 => 0u16..=8, 1 => Just(64u16), 1 => Just(300u16)];
    let second = prop::option::weighted(if c07_bias { 0.05 } else { 0.3 }, (0u8..N_SITES, 0u8..4, 0u8..5));
    let extras = (prop::bool::weighted(0.3), prop::option::weighted(if c07_bias { 0.1 } else { 0.3 }, (any::<bool>(), 0u8..4, 0u8..5, any::<bool>())), prop_oneof![4 => Just(0u8), 1 => 1u8..=2], prop::bool::weighted(if c07_bias { 0.25 } else { 0.12 }), prop::option::weighted(if c07_bias { 0.2 } else { 0.08 }, 0u8..6));
    let life = (0u8..N_SITES, n, 0u16..=12, any::<u64>(), prop_oneof![2 => Just(1u8), 1 => 2u8..=16], prop::bool::weighted(0.2), 0u8..4, second, extras).prop_map(|(site, n, extra_sel, pattern, threads, exit_unwind, nonmatching, second, (pre_uncounted, refake, early, in_teardown, again))| {
        // half of the superseding counted fakes are exactly satisfied
        let refake = refake.map(|(counted, n2, k2, exact)| (counted, n2, if exact && counted { n2 } else { k2 }));
        // k in 0..=n+2 matching calls, j non-matching ones interleaved by `pattern`
        let k = ((extra_sel as u32 * (n as u32 + 3)) / 13) as usize;
        let k = k.min(n as usize + 2);
        let j = nonmatching as usize;
        let mut calls = vec![true; k];
        for x in 0..j {
            let pos = ((pattern >> (x * 8)) as usize) % (calls.len() + 1);
            calls.insert(pos, false);
        }
        // (the same line twice in one lifetime: on its own, without the other extras, and with at
        // most n+1 calls so that over-calls stay catchable inside tear-down code as well)
        let again = again.map(|k2| k2.min(n.min(6) as u8 + 1));
        let (second, refake, threads) = if again.is_some() { (None, None, 1) } else { (second, refake, threads) };
        TLife { site, n, calls, threads, exit_unwind, second, pre_uncounted, refake, early, in_teardown, again }
    });
    let count = if c07_bias { 2usize..=8 } else { 1usize..=3 };
    (prop::collection::vec(life, count), 0u8..N_SITES, prop::bool::weighted(if c07_bias { 0.8 } else { 0.3 }), prop::bool::weighted(if c07_bias { 0.35 } else { 0.1 })).prop_map(|(mut lifetimes, site, same_site, prebuilt)| {
        if same_site {
            for l in lifetimes.iter_mut() {
                l.site = site;
            }
        }
        TimesCase { lifetimes, prebuilt, parallel: None }
    })
    .prop_flat_map(|c| {
        let par = prop::option::weighted(0.08, (2u8..=4, prop_oneof![Just(600u16), Just(1500u16), 200u16..3000], 0u8..N_SITES, 0u8..=3, 0u8..=4).prop_map(|(threads, rounds, site, n, k)| ParSpec { threads, rounds, site, n, k: k.min(n + 1) }));
        (Just(c), par).prop_map(|(mut c, parallel)| {
            c.parallel = parallel;
            c
        })
    })
}

pub fn judge(rec: &mut Recorder, c: &TimesCase, ex: Exec, _hello: &Value) -> Result<(), String> {
    let prop = rec.property.clone();
    let o: TimesObs = match ex {
        Exec::Timeout => {
            rec.count("watchdog", 1);
            if rec.counters.get("watchdog").copied().unwrap_or(0) > 3 {
                rec.inconclusive.push("worker watchdog expired repeatedly".into());
            }
            return Ok(());
        }
        Exec::Died { signal, code, phase, stderr_tail } => {
            rec.eval(|| json!({"case": c, "outcome": "worker died"}));
            let s = signal.map(signal_name).unwrap_or("exit");
            return rec.fail(&format!("{prop}/native/died/{s}/{phase}"), format!("worker died ({s} code {code:?}) in phase '{phase}' while executing {c:?}; stderr: {stderr_tail}"));
        }
        Exec::Obs(v) => {
            if let Some(e) = v.get("harness_error") {
                rec.inconclusive.push(format!("harness error: {e}"));
                return Ok(());
            }
            match serde_json::from_value(v) {
                Ok(o) => o,
                Err(e) => {
                    rec.inconclusive.push(format!("bad observation: {e}"));
                    return Ok(());
                }
            }
        }
    };
    rec.eval(|| json!({"case": c, "observed": o.lifetimes.iter().map(|l| json!({"ok": l.outcomes.iter().filter(|x| x.panic.is_none()).count(), "panicked": l.outcomes.iter().filter(|x| x.panic.is_some()).count(), "exit_panic": l.exit_panic})).collect::<Vec<_>>()}));
    let sig = |s: &str| format!("{prop}/native-times/{s}");
    let mut seen_site: std::collections::BTreeMap<u8, (usize, usize)> = Default::default();
    for (li, (l, lo)) in c.lifetimes.iter().zip(&o.lifetimes).enumerate() {
        let site = l.site % N_SITES;
        let n = l.n as usize;
        let earlier = seen_site.get(&site).copied();
        let ctx = |s: &str| -> String { format!("lifetime {li} (site {site}, times: {n}, {} calls, {} thread(s){}): {s}; case {c:?}", l.calls.len(), l.threads.clamp(1, 16), earlier.map(|(e, a)| format!(", {e} earlier lifetime(s) at this site absorbed {a} call(s)")).unwrap_or_default()) };
        let which = if earlier.map(|e| e.1 > 0).unwrap_or(false) { "later-installation-of-same-site" } else { "first-installation" };
        if let Some(p) = &lo.install_panic {
            return rec.fail(&sig("install-refused"), ctx(&format!("installation panicked: {p}")));
        }
        if l.pre_uncounted && lo.pre_value != Some(511) {
            return rec.fail(&sig("uncounted-fake-not-in-effect"), ctx(&format!("the uncounted fake installed first returned {:?} for 11, it yields 511", lo.pre_value)));
        }
        if l.early > 0 {
            if lo.early_outcomes.len() != l.early.min(3) as usize {
                // the library did not flush the patched entry during the installation (C17 judges
                // that); without the hook there were no early calls
                rec.class("early-calls/hook-did-not-fire");
            } else {
                rec.class("early-calls");
            }
        }
        // calls made while the installation was being completed come first in time
        let matching: Vec<&CallOut> = lo.early_outcomes.iter().chain(lo.outcomes.iter()).filter(|x| x.matching).collect();
        let non: Vec<&CallOut> = lo.outcomes.iter().filter(|x| !x.matching).collect();
        let k = matching.len();
        // non-matching calls: panic "unexpected arguments", never counted
        for x in &non {
            if x.panic.is_none() {
                return rec.fail(&sig("when-not-enforced"), ctx(&format!("call with arguments failing `when` (a={}) returned {:?} instead of panicking", x.arg, x.value)));
            }
        }
        let ok: Vec<&&CallOut> = matching.iter().filter(|x| x.panic.is_none()).collect();
        // (the wording of the per-call panic is not part of the statement: any panic of a
        // matching call counts as "refused at the call")
        let over: Vec<&&CallOut> = matching.iter().filter(|x| x.panic.is_some()).collect();
        if ok.len() != k.min(n) || over.len() != k.saturating_sub(n) {
            return rec.fail(&sig(&format!("admitted-count-wrong/{which}")), ctx(&format!("{} matching calls returned normally and {} panicked as over-called; with times: {n} and {k} matching calls exactly {} must return and {} must panic", ok.len(), over.len(), k.min(n), k.saturating_sub(n))));
        }
        if l.threads <= 1 {
            // in order: the first min(k,n) return, the rest panic
            for (i, x) in matching.iter().enumerate() {
                if (i < n) != x.panic.is_none() {
                    return rec.fail(&sig(&format!("admitted-count-wrong/{which}")), ctx(&format!("matching call #{} {}", i + 1, if x.panic.is_none() { "returned although the budget was exhausted" } else { "panicked although the budget was not exhausted" })));
                }
            }
        }
        // values of admitted calls (fresh evaluation with this call's arguments)
        for x in &ok {
            let want = match site {
                0 => Some(x.arg * 2 + 1),
                1 => Some(x.arg + 7),
                2 => None,
                _ => Some(x.arg),
            };
            if x.value != want || (site == 3 && x.side != Some(x.arg + 3)) {
                return rec.fail(&sig("admitted-call-wrong-result"), ctx(&format!("call a={} returned {:?} (side effect {:?}), the fake yields {want:?}", x.arg, x.value, x.side)));
            }
        }
        // the second counted fake of the same lifetime
        let mut k2n2: Option<(usize, usize)> = None;
        if let Some((_s2, n2, _)) = l.second {
            let n2 = n2 as usize;
            let k2 = lo.second_outcomes.len();
            let ok2 = lo.second_outcomes.iter().filter(|x| x.panic.is_none()).count();
            if ok2 != k2.min(n2) {
                return rec.fail(&sig("admitted-count-wrong/second-counted-fake"), ctx(&format!("second counted fake (times: {n2}): {ok2} of {k2} matching calls returned normally, exactly {} must", k2.min(n2))));
            }
            k2n2 = Some((k2, n2));
        }
        let second_unmet = k2n2.map(|(k2, n2)| k2 != n2).unwrap_or(false);
        // the fake that superseded the counted one on its own function
        let mut k3n3: Option<(usize, usize)> = None;
        if let Some((counted, n3, _)) = l.refake {
            let n3 = n3 as usize;
            let k3 = lo.refake_outcomes.len();
            let ok3: Vec<&CallOut> = lo.refake_outcomes.iter().filter(|x| x.panic.is_none()).collect();
            let want_ok = if counted { k3.min(n3) } else { k3 };
            if ok3.len() != want_ok {
                return rec.fail(&sig("admitted-count-wrong/superseding-fake"), ctx(&format!("fake installed on top of the counted one ({}): {} of {k3} calls returned normally, exactly {want_ok} must", if counted { format!("times: {n3}") } else { "no times".into() }, ok3.len())));
            }
            for x in &ok3 {
                let bad = match site {
                    2 => false,
                    3 => x.value != Some(x.arg + 1000) || x.side != Some(x.arg + 5),
                    _ => x.value != Some(x.arg + 1000),
                };
                if bad {
                    return rec.fail(&sig("superseding-fake-not-in-effect"), ctx(&format!("after re-faking, call a={} returned {:?} (side effect {:?}); the most recent fake yields a+1000", x.arg, x.value, x.side)));
                }
            }
            if counted {
                k3n3 = Some((k3, n3));
            }
        }
        let third_unmet = k3n3.map(|(k3, n3)| k3 != n3).unwrap_or(false);
        // the same line installed once more in this lifetime: counts from zero
        let again = l.again.is_some() && site <= 1;
        if again {
            let k4 = lo.again_outcomes.len();
            for (i, x) in lo.again_outcomes.iter().enumerate() {
                if (i < n) != x.panic.is_none() {
                    return rec.fail(&sig("admitted-count-wrong/same-line-installed-again-in-one-lifetime"), ctx(&format!("the same fake! line was installed a second time through the same injector (on the other function of that type) after the first installation had absorbed {} call(s); call #{} of {k4} to the new installation {} (times: {n}); every installation counts from zero", k.min(n), i + 1, if x.panic.is_none() { "returned although its budget was exhausted" } else { "panicked although its budget was not exhausted" })));
                }
                let want = if site == 0 { x.arg * 2 + 1 } else { x.arg + 7 };
                if x.panic.is_none() && x.value != Some(want) {
                    return rec.fail(&sig("admitted-call-wrong-result"), ctx(&format!("call a={} of the second installation of the line returned {:?}, the fake yields {want}", x.arg, x.value)));
                }
            }
            rec.class(if k.min(n) >= 1 { "same-line-installed-again-in-one-lifetime/after-absorbed-calls" } else { "same-line-installed-again-in-one-lifetime" });
        }
        // exit verdict
        if again {
            // (two live verifiers of one line read one counter: what they say is not judged)
            if lo.panics_at_exit > 1 {
                return rec.fail(&sig("more-than-one-panic-at-exit"), ctx(&format!("{} panics at scope exit", lo.panics_at_exit)));
            }
        } else if l.in_teardown {
            // the thread was unwinding already: no verdict is raised (that would be a double panic)
            let allowed = if l.exit_unwind { 1 } else { 0 };
            if lo.exit_panic.is_some() || lo.panics_at_exit != allowed {
                return rec.fail(&sig("double-panic-while-unwinding/tear-down"), ctx(&format!("{} panic(s) were raised at scope exit (exit panic {:?}) although the thread was already unwinding when the scope ended ({} allowed)", lo.panics_at_exit, lo.exit_panic, allowed)));
            }
        } else if l.exit_unwind {
            if lo.panics_at_exit != 1 {
                return rec.fail(&sig("double-panic-while-unwinding"), ctx(&format!("{} panics were raised while the scope was left by unwinding (exactly the user's one is allowed)", lo.panics_at_exit)));
            }
        } else {
            match (&lo.exit_panic, k != n || second_unmet || third_unmet) {
                (None, true) => return rec.fail(&sig(&format!("exit-verification-missed/{which}")), ctx(&format!("{k} matching calls were made against times: {n} (second counted fake: {k2n2:?} calls/times; counted fake installed on top of the first: {k3n3:?}; re-fake: {:?}) but scope exit did not panic", l.refake))),
                (Some(p), false) => return rec.fail(&sig(&format!("exit-verification-false-alarm/{which}")), ctx(&format!("exactly {n} matching calls were made (second counted fake: {k2n2:?}, superseding counted fake: {k3n3:?}) but scope exit panicked: {p}"))),
                (Some(p), true) => {
                    let nums: Vec<String> = p.split(|ch: char| !ch.is_ascii_digit()).filter(|s| !s.is_empty()).map(|s| s.to_string()).collect();
                    let names_first = k != n && nums.contains(&n.to_string()) && nums.contains(&k.to_string());
                    let names_second = second_unmet && k2n2.map(|(k2, n2)| nums.contains(&n2.to_string()) && nums.contains(&k2.to_string())).unwrap_or(false);
                    let names_third = third_unmet && k3n3.map(|(k3, n3)| nums.contains(&n3.to_string()) && nums.contains(&k3.to_string())).unwrap_or(false);
                    if !(names_first || names_second || names_third) {
                        return rec.fail(&sig("exit-message-lacks-numbers"), ctx(&format!("exit panic message {p:?} does not name both the expected count {n} and the actual count {k}")));
                    }
                    if lo.panics_at_exit != 1 {
                        return rec.fail(&sig("more-than-one-panic-at-exit"), ctx(&format!("{} panics at scope exit", lo.panics_at_exit)));
                    }
                }
                (None, false) => {}
            }
        }
        if !lo.restored {
            return rec.fail(&sig("not-restored"), ctx("targets not restored after the lifetime"));
        }
        let absorbed = k.min(n);
        let e = seen_site.entry(site).or_insert((0, 0));
        let repeated_site = e.0 >= 1 && e.1 >= 1;
        e.0 += 1;
        e.1 += absorbed;
        if c.prebuilt && repeated_site {
            rec.class("prebuilt-table/site-reused-after-calls");
        }
        if l.in_teardown {
            rec.class(if repeated_site { "lifetime-inside-tear-down-while-unwinding/site-reused-after-calls" } else { "lifetime-inside-tear-down-while-unwinding" });
        }
        if l.pre_uncounted {
            rec.class(if repeated_site { "uncounted-fake-first/site-reused-after-calls" } else { "uncounted-fake-first" });
        }
        if let Some((counted, _, _)) = l.refake {
            rec.class(&format!("superseded-by-{}/first-{}", if counted { if third_unmet { "counted-unmet" } else { "counted-met" } } else { "uncounted" }, if k == n { "met" } else { "unmet" }));
        }
        if l.second.is_some() {
            rec.class(if second_unmet { "two-counted-fakes/second-unmet" } else { "two-counted-fakes/second-met" });
        }
        rec.class(&format!("site{site}/{}{}{}", if l.threads > 1 { "threads>=2" } else { "1-thread" }, if k > n { "/over-called" } else if k < n { "/under-called" } else { "/exact" }, if repeated_site { "/site-reused-after-calls" } else { "" }));
        let nontrivial = if prop == "C07" { repeated_site || (again && k.min(n) >= 1) } else { (k >= 1 && (k > n || !non.is_empty() || l.threads >= 2)) || l.second.is_some() || l.refake.is_some() };
        if nontrivial {
            rec.nontrivial(&(li, l, repeated_site));
        }
    }
    if let (Some(p), Some(po)) = (&c.parallel, &o.parallel) {
        rec.class(&format!("parallel-lifetimes/{}-threads/{}", p.threads.clamp(2, 8), if p.k == p.n { "exact" } else if p.k < p.n { "under-called" } else { "over-called" }));
        rec.count("parallel_lifetimes", po.lifetimes);
        if po.install_panics != 0 {
            return rec.fail(&sig("install-refused/parallel-lifetimes"), format!("{} installations panicked while {} threads ran lifetimes of site {} back to back; case {c:?}", po.install_panics, p.threads, p.site % N_SITES));
        }
        if po.wrong_calls != 0 {
            return rec.fail(&sig("admitted-count-wrong/parallel-lifetimes"), format!("{} of {} lifetimes (site {}, times: {}, {} matching calls each, {} threads taking turns) did not admit exactly the first min(k,N) calls; case {c:?}", po.wrong_calls, po.lifetimes, p.site % N_SITES, p.n, p.k, p.threads));
        }
        if po.wrong_verdicts != 0 {
            return rec.fail(&sig("exit-verdict-from-another-lifetime"), format!("{} of {} lifetimes (site {}, times: {}, {} matching calls each, {} threads taking turns) got the wrong verdict at scope exit; first: {:?}; case {c:?}", po.wrong_verdicts, po.lifetimes, p.site % N_SITES, p.n, p.k, p.threads, po.first_wrong));
        }
        rec.nontrivial(&("parallel", p));
    }
    Ok(())
}
