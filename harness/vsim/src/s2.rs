//! Engine S2 (placeholder until implemented below)
use serde_json::Value;
use vcommon::Recorder;
pub fn cmd(_prop: &str) -> i32 { 2 }
pub fn replay(_rec: &mut Recorder, _prop: &str, _case: &Value) -> Result<(), String> { Err("s2 replay not implemented".into()) }
