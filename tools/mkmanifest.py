#!/usr/bin/env python3
"""Regenerates /verif/MANIFEST.json from tools/plan.py (PLAN + META) so the two never disagree."""
import json, os, sys
sys.path.insert(0, os.path.dirname(os.path.abspath(__file__)))
from plan import PLAN, META, NOT_APPLICABLE, ENGINES

props = [json.loads(l) for l in open('/verif/properties.jsonl')]
ids = [p['id'] for p in props]
checks = []
for pid in ids:
    if pid not in PLAN:
        continue
    m = META[pid]
    checks.append({
        "property_id": pid,
        "quick_cmd": f"./check {pid} quick",
        "thorough_cmd": f"./check {pid} thorough",
        "evidence_file": f"/verif/evidence/{pid}.json",
        "replay_cmd_template": f"./check {pid} --replay {{path}}",
        "engine": "+".join(e["name"] for e in PLAN[pid]["engines"]),
        "level_claimed": {"category": m["level"], "text": m["text"], "design_ref": m["design_ref"]},
        "level_note": m["note"],
        "technique": m["technique"],
    })
na = [{"property_id": pid, "reason": NOT_APPLICABLE.get(pid, "check not built yet in this round; nothing is claimed")} for pid in ids if pid not in PLAN]
manifest = {
    "version": 1,
    "setup_cmd": "./setup.sh",
    "hooks": {
        "guard": "none (no source hook exists: every observation point is reached through the public API, interposed platform calls, /proc, or host compilation of the unmodified sources)",
        "enable": "n/a - checks build /repo's working tree as it is (path dependency through /verif/work/repo)",
        "baseline_off_cmd": "/verif/tools/baseline.sh",
        "source_commits": [],
        "add_only": True,
    },
    "engines": ENGINES,
    "checks": checks,
    "not_applicable": na,
    "notes": "Technique family: property-based testing and fuzzing (proptest generators + exhaustive sub-sweeps + libFuzzer target), explicit oracles (independent decoders, reference models, pristine-snapshot round trips, history invariants). fix: commits in /repo and known findings are listed in /verif/known_findings.txt. Exit 2 = inconclusive.",
}
json.dump(manifest, open('/verif/MANIFEST.json', 'w'), indent=1)
print("MANIFEST.json:", len(checks), "checks,", len(na), "not applicable")
